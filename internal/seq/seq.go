// Package seq holds the workload generators shared by the reference-model
// trace monitors (DESIGN §3.1): systematic small-scope sweeps and seeded random
// sequences with phases.
package seq

// Enum emits every sequence of length 1..maxLen over alpha (a fresh slice each
// time) and returns how many were emitted. It is a workload generator, not a
// state-space search: each emitted sequence is simply executed by the caller.
func Enum[T any](alpha []T, maxLen int, emit func([]T)) int64 {
	var n int64
	for l := 1; l <= maxLen; l++ { // shortest first, so that witnesses are short
		n += EnumExact(alpha, l, emit)
	}
	return n
}

// EnumExact emits every sequence of exactly length n over alpha.
func EnumExact[T any](alpha []T, n int, emit func([]T)) int64 {
	var cnt int64
	idx := make([]int, n)
	for {
		s := make([]T, n)
		for i, j := range idx {
			s[i] = alpha[j]
		}
		emit(s)
		cnt++
		k := n - 1
		for k >= 0 {
			idx[k]++
			if idx[k] < len(alpha) {
				break
			}
			idx[k] = 0
			k--
		}
		if k < 0 {
			return cnt
		}
	}
}

// Pow returns sum_{i=1..l} n^i.
func Pow(n, l int) int64 {
	var t, p int64 = 0, 1
	for i := 0; i < l; i++ {
		p *= int64(n)
		t += p
	}
	return t
}
