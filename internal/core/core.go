// Package core is the in-child half of the verification framework: seeded PRNG,
// case announcement (so that a crash or hang can be attributed), violation
// collection, coverage accounting and the summary the driver turns into
// evidence/<id>.json.
//
// A child is a Go test binary started by cmd/verifcheck with these variables:
//
//	VERIF_SEED   integer seed (default 1)
//	VERIF_TIER   quick | thorough (default quick)
//	VERIF_OUT    directory this child may write to (summary.json, slots, events)
//	VERIF_ONLY   path of a replay file: run exactly that case and nothing else
//	VERIF_SHARD  "i/n": this child handles shard i of n (monitors decide how)
package core

import (
	"encoding/json"
	"fmt"
	"hash/fnv"
	"os"
	"path/filepath"
	"runtime"
	"runtime/debug"
	"sort"
	"strconv"
	"strings"
	"sync"
	"sync/atomic"
	"testing"
	"time"
)

// ---------------------------------------------------------------- PRNG

// Rand is a small splitmix64 generator; every random choice of the framework
// derives from VERIF_SEED through it.
type Rand struct{ s uint64 }

func NewRand(seed uint64) *Rand { return &Rand{s: seed} }

func (r *Rand) Uint64() uint64 {
	r.s += 0x9e3779b97f4a7c15
	z := r.s
	z = (z ^ (z >> 30)) * 0xbf58476d1ce4e5b9
	z = (z ^ (z >> 27)) * 0x94d049bb133111eb
	return z ^ (z >> 31)
}

// Intn returns a value in [0,n). n must be > 0.
func (r *Rand) Intn(n int) int { return int(r.Uint64() % uint64(n)) }

// Range returns a value in [lo,hi].
func (r *Rand) Range(lo, hi int) int { return lo + r.Intn(hi-lo+1) }

func (r *Rand) Bool() bool { return r.Uint64()&1 == 1 }

// Chance is true with probability num/den.
func (r *Rand) Chance(num, den int) bool { return r.Intn(den) < num }

// Fork derives an independent stream.
func (r *Rand) Fork() *Rand { return NewRand(r.Uint64()) }

func HashString(s string) uint64 {
	h := fnv.New64a()
	h.Write([]byte(s))
	return h.Sum64()
}

// ---------------------------------------------------------------- records

// ViolationRec is one distinct violation (by signature) with its shortest witness.
type ViolationRec struct {
	Property string          `json:"property"`
	Monitor  string          `json:"monitor"`
	Sig      string          `json:"sig"`
	Detail   string          `json:"detail"`
	Case     json.RawMessage `json:"case"`
	Count    int64           `json:"count"`
}

// Summary is what a child leaves behind for the driver.
type Summary struct {
	Property     string                 `json:"property"`
	Tier         string                 `json:"tier"`
	Seed         uint64                 `json:"seed"`
	Shard        string                 `json:"shard,omitempty"`
	Evaluations  int64                  `json:"evaluations"`
	Distinct     int64                  `json:"distinct_nontrivial"`
	Rules        []string               `json:"rules"`
	Samples      []any                  `json:"samples"`
	Counters     map[string]int64       `json:"counters"`
	Exhaustive   map[string]int64       `json:"exhaustive_subspaces,omitempty"`
	Extra        map[string]any         `json:"extra,omitempty"`
	Inconclusive int64                  `json:"inconclusive"`
	Violations   []ViolationRec         `json:"violations"`
	Monitors     map[string]MonitorStat `json:"monitors"`
	Complete     bool                   `json:"complete"`
	WallS        float64                `json:"wall_s"`
}

type MonitorStat struct {
	Evaluations int64 `json:"evaluations"`
	Distinct    int64 `json:"distinct_nontrivial"`
	Violations  int64 `json:"violations"`
}

// ReplayFile is the on-disk form of a witness (also accepted through VERIF_ONLY).
type ReplayFile struct {
	Property string          `json:"property"`
	Monitor  string          `json:"monitor"`
	Sig      string          `json:"sig"`
	Detail   string          `json:"detail,omitempty"`
	Seed     uint64          `json:"seed"`
	Tier     string          `json:"tier"`
	Case     json.RawMessage `json:"case"`
}

// ---------------------------------------------------------------- runner

const maxSamples = 6

type Runner struct {
	T         testing.TB
	Prop      string
	tier      string
	seed      uint64
	outDir    string
	shardI    int
	shardN    int
	only      *ReplayFile
	start     time.Time
	mu        sync.Mutex
	sum       Summary
	viol      map[string]*ViolationRec
	distinct  map[string]map[uint64]struct{}
	slots     *os.File
	workers   []*Worker
	nextSlot  int
	stopWD    chan struct{}
	finished  bool
	nviol     atomic.Int64
	knownSigs map[string]bool
	onViol    func(sig, detail string)
}

// violationBudget: once this many violations were reported the generators stop
// feeding cases (a heavily broken tree need not be explored to the end; the
// summary says so).
const violationBudget = 5000

// Saturated reports whether the violation budget is used up.
func (r *Runner) Saturated() bool { return r.nviol.Load() >= violationBudget }

const slotSize = 8192

// Start creates the runner for one property. Call Finish (deferred) at the end.
func Start(t testing.TB, prop string) *Runner {
	r := &Runner{T: t, Prop: prop, start: time.Now()}
	r.tier = os.Getenv("VERIF_TIER")
	if r.tier != "thorough" {
		r.tier = "quick"
	}
	r.seed = 1
	if s := os.Getenv("VERIF_SEED"); s != "" {
		if v, err := strconv.ParseUint(s, 10, 64); err == nil {
			r.seed = v
		} else if v, err := strconv.ParseInt(s, 10, 64); err == nil {
			r.seed = uint64(v)
		}
	}
	r.outDir = os.Getenv("VERIF_OUT")
	if r.outDir == "" {
		d, err := os.MkdirTemp("", "verif-child-")
		if err != nil {
			t.Fatalf("mkdtemp: %v", err)
		}
		r.outDir = d
	}
	r.shardN = 1
	if s := os.Getenv("VERIF_SHARD"); s != "" {
		fmt.Sscanf(s, "%d/%d", &r.shardI, &r.shardN)
		if r.shardN < 1 {
			r.shardN = 1
		}
	}
	if p := os.Getenv("VERIF_ONLY"); p != "" {
		b, err := os.ReadFile(p)
		if err != nil {
			t.Fatalf("VERIF_ONLY: %v", err)
		}
		var rf ReplayFile
		if err := json.Unmarshal(b, &rf); err != nil {
			t.Fatalf("VERIF_ONLY: %v", err)
		}
		r.only = &rf
	}
	r.sum = Summary{Property: prop, Tier: r.tier, Seed: r.seed, Shard: os.Getenv("VERIF_SHARD"),
		Counters: map[string]int64{}, Exhaustive: map[string]int64{}, Extra: map[string]any{},
		Monitors: map[string]MonitorStat{}}
	r.viol = map[string]*ViolationRec{}
	r.knownSigs = map[string]bool{}
	for _, k := range strings.Split(os.Getenv("VERIF_KNOWN_SIGS"), "\x1f") {
		if k != "" {
			r.knownSigs[k] = true
		}
	}
	r.distinct = map[string]map[uint64]struct{}{}
	f, err := os.OpenFile(filepath.Join(r.outDir, "slots"), os.O_CREATE|os.O_RDWR|os.O_TRUNC, 0o644)
	if err == nil {
		r.slots = f
	}
	r.stopWD = make(chan struct{})
	go r.watchdog()
	return r
}

func (r *Runner) Tier() string { return r.tier }

// Quick reports whether the quick tier's bounds apply: in the quick tier, and in children of the
// thorough tier that are started with VERIF_BOUNDS=quick (race-detector builds: the race
// runtime keeps a few KB per goroutine ever started, so the very large thorough workloads run in
// a plain build and the race build repeats the quick-size workload with varied GOMAXPROCS).
func (r *Runner) Quick() bool { return r.tier == "quick" || os.Getenv("VERIF_BOUNDS") == "quick" }
func (r *Runner) Seed() uint64      { return r.seed }
func (r *Runner) Shard() (i, n int) { return r.shardI, r.shardN }
func (r *Runner) OutDir() string    { return r.outDir }
func (r *Runner) Replaying() bool   { return r.only != nil }

// Pick returns q in the quick tier and t in the thorough tier.
func (r *Runner) Pick(q, t int) int {
	if r.Quick() {
		return q
	}
	return t
}

// Rand returns the stream named name (independent of the order of calls).
func (r *Runner) Rand(name string) *Rand {
	return NewRand(r.seed*0x9e3779b97f4a7c15 ^ HashString(name))
}

func (r *Runner) Rule(s string) {
	r.mu.Lock()
	r.sum.Rules = append(r.sum.Rules, s)
	r.mu.Unlock()
}

func (r *Runner) Exhaustive(subspace string, size int64) {
	r.mu.Lock()
	r.sum.Exhaustive[subspace] += size
	r.mu.Unlock()
}

func (r *Runner) Extra(key string, v any) {
	r.mu.Lock()
	r.sum.Extra[key] = v
	r.mu.Unlock()
}

func (r *Runner) Count(key string, d int64) {
	r.mu.Lock()
	r.sum.Counters[key] += d
	r.mu.Unlock()
}

func (r *Runner) Inconclusive(n int64, why string) {
	r.mu.Lock()
	r.sum.Inconclusive += n
	r.sum.Counters["inconclusive:"+why] += n
	r.mu.Unlock()
}

// Worker is the per-goroutine handle used while executing cases.
type Worker struct {
	R        *Runner
	Monitor  string
	slot     int
	cur      atomic.Pointer[caseBox]
	progress atomic.Int64
	evals    int64
	distinct map[uint64]struct{}
	counters map[string]int64
	samples  []any
	nviol    int64
	idle     atomic.Bool
}

type caseBox struct {
	v    any
	raw  []byte
	once sync.Once
}

func (b *caseBox) json() []byte {
	b.once.Do(func() {
		if b.raw == nil {
			raw, err := json.Marshal(b.v)
			if err != nil {
				raw = []byte(fmt.Sprintf("%q", fmt.Sprintf("%+v", b.v)))
			}
			b.raw = raw
		}
	})
	return b.raw
}

func (r *Runner) newWorker(monitor string) *Worker {
	r.mu.Lock()
	defer r.mu.Unlock()
	w := &Worker{R: r, Monitor: monitor, slot: r.nextSlot, distinct: map[uint64]struct{}{}, counters: map[string]int64{}}
	w.idle.Store(true)
	r.nextSlot++
	r.workers = append(r.workers, w)
	return w
}

// NewWorker creates a worker that the caller drives itself (Begin/End) instead of
// going through Monitor; call Done when finished.
func (r *Runner) NewWorker(monitor string) *Worker { return r.newWorker(monitor) }

// Done merges a hand-driven worker's counts into the summary.
func (r *Runner) Done(w *Worker) { w.End(); r.merge(w) }

// Only returns the replay request (nil in a normal run).
func (r *Runner) Only() *ReplayFile { return r.only }

// Begin announces the case the worker is about to execute. persist=true also
// writes it to the slot file so that a fatal runtime error can be attributed.
func (w *Worker) Begin(c any, persist bool) {
	b := &caseBox{v: c}
	w.cur.Store(b)
	w.idle.Store(false)
	w.progress.Add(1)
	w.evals++
	if persist && w.R.slots != nil {
		raw := b.json()
		hdr := fmt.Sprintf("%s\n%d\n", w.Monitor, len(raw))
		buf := make([]byte, 0, len(hdr)+len(raw))
		buf = append(buf, hdr...)
		buf = append(buf, raw...)
		if len(buf) > slotSize {
			buf = buf[:slotSize]
		}
		w.R.slots.WriteAt(buf, int64(w.slot)*slotSize)
	}
}

// End marks the worker idle (between cases / finished).
func (w *Worker) End() { w.idle.Store(true); w.progress.Add(1) }

// Tick tells the watchdog the worker is alive inside a long case.
func (w *Worker) Tick() { w.progress.Add(1) }

// NonTrivial records that the current case satisfied the monitor's
// non-triviality rule; h identifies the case (distinct cases are counted once).
func (w *Worker) NonTrivial(h uint64) { w.distinct[h] = struct{}{} }

func (w *Worker) Count(key string, d int64) { w.counters[key] += d }

// Sample offers a case description for the evidence file (first few are kept).
func (w *Worker) Sample(v any) {
	if len(w.samples) < 2 {
		w.samples = append(w.samples, v)
	}
}

func (w *Worker) WantSample() bool { return len(w.samples) < 2 }

// Violation reports a violation of the property on the current case.
func (w *Worker) Violation(sig, detail string) {
	var raw []byte
	if b := w.cur.Load(); b != nil {
		raw = b.json()
	}
	w.nviol++
	w.R.addViolation(w.Monitor, sig, detail, raw)
}

// Probe returns a worker that is not attached to a run: violations go to onViol. Used by fuzz
// targets, whose iterations execute in worker processes of the Go fuzzing engine.
func Probe(onViol func(sig, detail string)) *Worker {
	known := map[string]bool{}
	for _, k := range strings.Split(os.Getenv("VERIF_KNOWN_SIGS"), "\x1f") {
		if k != "" {
			known[k] = true
		}
	}
	inner := onViol
	onViol = func(sig, detail string) {
		if !known[sig] { // recorded findings (known_findings.json) are reported by the sweeps, not here
			inner(sig, detail)
		}
	}
	r := &Runner{Prop: "probe", onViol: onViol, viol: map[string]*ViolationRec{}, knownSigs: known}
	r.sum = Summary{Counters: map[string]int64{}}
	w := &Worker{R: r, Monitor: "probe", distinct: map[uint64]struct{}{}, counters: map[string]int64{}}
	w.samples = make([]any, 2) // WantSample() == false
	return w
}

func (r *Runner) addViolation(monitor, sig, detail string, raw []byte) {
	if r.onViol != nil {
		r.onViol(sig, detail)
		return
	}
	// signatures listed as known findings (handed down by the driver) do not use
	// up the budget: exploration must go on past them.
	if !r.knownSigs[sig] && r.nviol.Add(1) == violationBudget {
		r.Count("stopped_early_violation_budget", 1)
	}
	r.mu.Lock()
	defer r.mu.Unlock()
	v := r.viol[sig]
	if v == nil {
		v = &ViolationRec{Property: r.Prop, Monitor: monitor, Sig: sig}
		r.viol[sig] = v
	}
	v.Count++
	if v.Case == nil || len(raw) < len(v.Case) {
		v.Case = append([]byte(nil), raw...)
		v.Detail = detail
	}
}

// ViolationRaw reports a violation that is not tied to a worker's current case.
func (r *Runner) ViolationRaw(monitor, sig, detail string, c any) {
	raw, _ := json.Marshal(c)
	r.addViolation(monitor, sig, detail, raw)
}

func (r *Runner) merge(w *Worker) {
	r.mu.Lock()
	defer r.mu.Unlock()
	ms := r.sum.Monitors[w.Monitor]
	ms.Evaluations += w.evals
	ms.Violations += w.nviol
	d := r.distinct[w.Monitor]
	if d == nil {
		d = map[uint64]struct{}{}
		r.distinct[w.Monitor] = d
	}
	for h := range w.distinct {
		d[h] = struct{}{}
	}
	ms.Distinct = int64(len(d))
	r.sum.Monitors[w.Monitor] = ms
	for k, v := range w.counters {
		r.sum.Counters[k] += v
	}
	// keep samples spread over monitors
	n := 0
	for _, s := range r.sum.Samples {
		if m, ok := s.(map[string]any); ok && m["monitor"] == w.Monitor {
			n++
		}
	}
	for _, s := range w.samples {
		if n >= 2 || len(r.sum.Samples) >= 40 {
			break
		}
		r.sum.Samples = append(r.sum.Samples, map[string]any{"monitor": w.Monitor, "case": s})
		n++
	}
	w.evals, w.nviol = 0, 0
	w.distinct = map[uint64]struct{}{}
	w.counters = map[string]int64{}
	w.samples = nil
}

// Monitor runs one monitor: gen produces cases (through emit), run executes one
// case on a worker. Cases are distributed over par goroutines (par<=0: NumCPU).
// In replay mode only the case from the replay file is executed (if it belongs
// to this monitor).
func Monitor[C any](r *Runner, name string, par int, gen func(emit func(C)), run func(w *Worker, c C)) {
	if r.only != nil {
		if r.only.Monitor != name {
			return
		}
		var c C
		if err := json.Unmarshal(r.only.Case, &c); err != nil {
			r.T.Fatalf("replay case for %s: %v", name, err)
		}
		w := r.newWorker(name)
		w.Begin(c, true)
		runGuard(w, c, run)
		w.End()
		r.merge(w)
		return
	}
	if par <= 0 {
		par = runtime.NumCPU()
	}
	const batch = 256
	ch := make(chan []C, par*2)
	var wg sync.WaitGroup
	for i := 0; i < par; i++ {
		w := r.newWorker(name)
		wg.Add(1)
		go func() {
			defer wg.Done()
			for b := range ch {
				for _, c := range b {
					w.Begin(c, true)
					runGuard(w, c, run)
				}
				w.End()
			}
			r.merge(w)
		}()
	}
	cur := make([]C, 0, batch)
	gen(func(c C) {
		if r.Saturated() {
			return
		}
		cur = append(cur, c)
		if len(cur) == batch {
			ch <- cur
			cur = make([]C, 0, batch)
		}
	})
	if len(cur) > 0 {
		ch <- cur
	}
	close(ch)
	wg.Wait()
}

// runGuard turns a panic that escapes the monitor itself into a violation of
// kind "monitor-panic" (the monitors recover library panics themselves where a
// panic is an allowed outcome, so anything arriving here is unexpected).
func runGuard[C any](w *Worker, c C, run func(w *Worker, c C)) {
	defer func() {
		if p := recover(); p != nil {
			w.Violation("unexpected-panic:"+TrimPanic(p), fmt.Sprintf("panic: %v\n%s", p, debug.Stack()))
		}
	}()
	run(w, c)
}

// TrimPanic gives a short, stable text for a recovered panic value.
func TrimPanic(p any) string {
	s := fmt.Sprint(p)
	if i := strings.IndexByte(s, '\n'); i >= 0 {
		s = s[:i]
	}
	// strip volatile numbers from runtime error texts
	out := make([]rune, 0, len(s))
	for _, ch := range s {
		if ch >= '0' && ch <= '9' {
			if n := len(out); n > 0 && out[n-1] == '#' {
				continue
			}
			out = append(out, '#')
			continue
		}
		out = append(out, ch)
	}
	if len(out) > 80 {
		out = out[:80]
	}
	return string(out)
}

// ---------------------------------------------------------------- watchdog

const (
	hangTicks     = 100 // x 500 ms = 50 s of scheduled time without progress on one case
	heapLimitByte = 6 << 30
)

// watchdog: (a) a worker stuck on one case for hangSeconds, (b) heap blow-up.
// Either ends the child with a marker file; the driver re-executes the case in
// isolation before believing it (DESIGN §2).
func (r *Runner) watchdog() {
	// A hang is "no progress on one case for hangTicks consecutive HEALTHY ticks", not for a wall-
	// clock span: on a starved machine (seen once: load 130 next to a process holding 56 GB) the
	// ticks themselves arrive late, and a tick that arrives more than 2 s after the previous one
	// is not counted - the worker may simply not have been scheduled either.
	type st struct {
		p     int64
		ticks int
	}
	last := map[*Worker]st{}
	prevTick := time.Now()
	tk := time.NewTicker(500 * time.Millisecond)
	defer tk.Stop()
	for {
		select {
		case <-r.stopWD:
			return
		case <-tk.C:
		}
		var ms runtime.MemStats
		runtime.ReadMemStats(&ms)
		r.mu.Lock()
		ws := append([]*Worker(nil), r.workers...)
		r.mu.Unlock()
		if ms.HeapAlloc > heapLimitByte {
			// blame every active worker; the driver re-runs each in isolation
			for _, w := range ws {
				if !w.idle.Load() {
					r.abort("blowup", w)
				}
			}
			r.exit(4)
		}
		now := time.Now()
		healthy := now.Sub(prevTick) < 2*time.Second
		prevTick = now
		for _, w := range ws {
			p := w.progress.Load()
			s, ok := last[w]
			if !ok || s.p != p || w.idle.Load() {
				last[w] = st{p, 0}
				continue
			}
			if healthy {
				s.ticks++
				last[w] = s
			}
			if s.ticks > hangTicks {
				r.abort("hang", w)
				// dump goroutines for the log
				buf := make([]byte, 1<<20)
				n := runtime.Stack(buf, true)
				os.WriteFile(filepath.Join(r.outDir, "hang-stacks.txt"), buf[:n], 0o644)
				r.exit(4)
			}
		}
	}
}

func (r *Runner) abort(kind string, w *Worker) {
	b := w.cur.Load()
	if b == nil {
		return
	}
	rec := map[string]any{"kind": kind, "monitor": w.Monitor, "case": json.RawMessage(b.json())}
	raw, _ := json.Marshal(rec)
	f, err := os.OpenFile(filepath.Join(r.outDir, "aborts.jsonl"), os.O_CREATE|os.O_APPEND|os.O_WRONLY, 0o644)
	if err == nil {
		f.Write(append(raw, '\n'))
		f.Close()
	}
}

func (r *Runner) exit(code int) {
	r.writeSummary(false)
	os.Exit(code)
}

// ---------------------------------------------------------------- finish

func (r *Runner) writeSummary(complete bool) {
	r.mu.Lock()
	defer r.mu.Unlock()
	s := r.sum
	s.Complete = complete
	s.WallS = time.Since(r.start).Seconds()
	s.Evaluations, s.Distinct = 0, 0
	for _, m := range s.Monitors {
		s.Evaluations += m.Evaluations
		s.Distinct += m.Distinct
	}
	s.Violations = nil
	sigs := make([]string, 0, len(r.viol))
	for k := range r.viol {
		sigs = append(sigs, k)
	}
	sort.Strings(sigs)
	for _, k := range sigs {
		s.Violations = append(s.Violations, *r.viol[k])
	}
	raw, err := json.MarshalIndent(s, "", " ")
	if err != nil {
		raw = []byte(fmt.Sprintf(`{"property":%q,"complete":false,"marshal_error":%q}`, r.Prop, err.Error()))
	}
	tmp := filepath.Join(r.outDir, "summary.json.tmp")
	os.WriteFile(tmp, raw, 0o644)
	os.Rename(tmp, filepath.Join(r.outDir, "summary.json"))
}

// Finish writes summary.json. The test itself never fails on violations: the
// driver decides (known findings, confirmation runs).
func (r *Runner) Finish() {
	if r.finished {
		return
	}
	r.finished = true
	close(r.stopWD)
	r.writeSummary(true)
	if r.slots != nil {
		r.slots.Close()
	}
}

// ---------------------------------------------------------------- helpers

// Catch runs f and returns the recovered panic value (nil if none).
func Catch(f func()) (p any) {
	defer func() { p = recover() }()
	f()
	return nil
}

// JSON is a convenience for building sample/detail strings.
func JSON(v any) string {
	b, err := json.Marshal(v)
	if err != nil {
		return fmt.Sprintf("%+v", v)
	}
	return string(b)
}
