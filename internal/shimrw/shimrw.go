// Package shimrw redirects `import "sync"` to the vsync shim in every non-test
// Go file of a scratch copy of the repository (go/parser based, so aliases,
// grouped imports and comments are handled; the rest of the file is untouched
// apart from gofmt normalisation).
package shimrw

import (
	"go/ast"
	"go/format"
	"go/parser"
	"go/token"
	"os"
	"path/filepath"
	"strings"
)

// Rewrite walks root and returns the number of files changed.
func Rewrite(root, shimPath string) (int, error) {
	changed := 0
	err := filepath.Walk(root, func(path string, info os.FileInfo, err error) error {
		if err != nil {
			return err
		}
		if info.IsDir() {
			n := info.Name()
			if n == ".git" || n == "vsync" || n == "testdata" {
				return filepath.SkipDir
			}
			return nil
		}
		if !strings.HasSuffix(path, ".go") || strings.HasSuffix(path, "_test.go") {
			return nil
		}
		fset := token.NewFileSet()
		f, err := parser.ParseFile(fset, path, nil, parser.ParseComments)
		if err != nil {
			return err
		}
		hit := false
		for _, imp := range f.Imports {
			if imp.Path.Value == `"sync"` {
				name := "sync"
				if imp.Name != nil {
					name = imp.Name.Name
				}
				imp.Path.Value = `"` + shimPath + `"`
				imp.Name = ast.NewIdent(name)
				hit = true
			}
		}
		if !hit {
			return nil
		}
		out, err := os.Create(path)
		if err != nil {
			return err
		}
		defer out.Close()
		if err := format.Node(out, fset, f); err != nil {
			return err
		}
		changed++
		return nil
	})
	return changed, err
}
