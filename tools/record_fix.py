#!/usr/bin/env python3
# usage: tools/record_fix.py <Cxx> "<what failed>"   -- records HEAD of /repo as the fixing commit
import json,subprocess,sys
prop,what=sys.argv[1],sys.argv[2]
c=subprocess.check_output(['git','-C','/repo','log','-1','--format=%h']).decode().strip()
p='/verif/known_findings.json'
d=json.load(open(p))
d['findings'].append({"property":prop,"status":"fixed","commit":c,"what":what,
  "line":"fixed: property=%s %s %s"%(prop,c,what)})
json.dump(d,open(p,'w'),indent=1)
print("recorded",prop,c)
