#!/bin/bash
# Confirms a seeded change and runs checks against it, in a scratch worktree of /repo
# (never in /repo itself).
#   tools/try_seeded.sh <dir with patch.diff, meta.json, demo> [Cxx ...]
# Steps: (1) clean worktree + demo must pass; (2) apply patch: build, pinned suite
# (tools/repo_suite.sh) must pass, demo must fail; (3) run the named checks (default: the
# property in meta.json) with VERIF_REPO=<worktree>, quick tier; print one summary line.
# Env: TIER=quick|thorough, KEEP=1 keeps the worktree, SKIP_CONFIRM=1 skips (1)-(2).
export GOFLAGS=-mod=mod GOPROXY=off GOSUMDB=off GOTOOLCHAIN=local
set -u
D=$(readlink -f "$1"); shift
VER=/verif
name=$(basename "$(dirname "$D")")-$(basename "$D")
WT=/tmp/mut/run/$name
mkdir -p /tmp/mut/run
git -C /repo worktree remove --force "$WT" >/dev/null 2>&1
rm -rf "$WT"
git -C /repo worktree add --detach "$WT" HEAD >/dev/null 2>&1 || { echo "worktree failed"; exit 2; }
cleanup() { [ -n "${KEEP:-}" ] || { git -C /repo worktree remove --force "$WT" >/dev/null 2>&1; rm -rf "$WT"; }; }
trap cleanup EXIT
prop=$(jq -r .property "$D/meta.json")
demo=$(jq -r .demo_file "$D/meta.json")
dest=$(jq -r .demo_dest "$D/meta.json")
cmd=$(jq -r .demo_cmd "$D/meta.json")
res="seeded=$name property=$prop"
if [ -z "${SKIP_CONFIRM:-}" ]; then
  mkdir -p "$WT/$dest"; cp "$D/$demo" "$WT/$dest/"
  (cd "$WT" && timeout 300 bash -c "$cmd") > /tmp/mut/run/$name.demo_clean.log 2>&1; c1=$?
  rm -f "$WT/$dest/$demo"
  if ! git -C "$WT" apply "$D/patch.diff" 2>/dev/null && ! git -C "$WT" apply --3way "$D/patch.diff" >/dev/null 2>&1; then echo "$res PATCH-DOES-NOT-APPLY"; exit 2; fi
  (cd "$WT" && go build ./... ) > /tmp/mut/run/$name.build.log 2>&1 || { echo "$res BUILD-FAILS"; exit 2; }
  "$VER/tools/repo_suite.sh" "$WT" > /tmp/mut/run/$name.suite.log 2>&1; s=$?
  cp "$D/$demo" "$WT/$dest/"
  (cd "$WT" && timeout 300 bash -c "$cmd") > /tmp/mut/run/$name.demo_mut.log 2>&1; c2=$?
  rm -f "$WT/$dest/$demo"
  res="$res demo_clean=$c1 suite=$s demo_mut=$c2"
else
  git -C "$WT" apply "$D/patch.diff" 2>/dev/null || git -C "$WT" apply --3way "$D/patch.diff" >/dev/null 2>&1 || { echo "$res PATCH-DOES-NOT-APPLY"; exit 2; }
fi
[ $# -eq 0 ] && set -- "$prop"
for id in "$@"; do
  VERIF_DIR=$VER VERIF_REPO=$WT "$VER/bin/verifcheck" run "$id" "${TIER:-quick}" > /tmp/mut/run/$name.$id.log 2>&1; rc=$?
  nv=$(grep -c '^VIOLATION' /tmp/mut/run/$name.$id.log)
  res="$res $id:rc=$rc,viol=$nv"
done
echo "$res"
