#!/bin/bash
# Runs the repository's pinned suite with the guard OFF (default go, no tags) and
# compares with /root/.vp/BASELINE.json: every stable_pass test must pass.
# usage: tools/repo_suite.sh [repo-dir]
export GOFLAGS=-mod=mod GOPROXY=off GOSUMDB=off GOTOOLCHAIN=local
REPO="${1:-/repo}"
OUT=$(mktemp)
(cd "$REPO" && go test -json -vet=off -count=1 -timeout 25m ./... > "$OUT" 2>&1)
python3 - "$OUT" <<'PY'
import json,sys
base=json.load(open('/root/.vp/BASELINE.json'))
want=set(base['stable_pass'])
res={}
for l in open(sys.argv[1]):
    try: d=json.loads(l)
    except Exception: continue
    if d.get('Test') and d.get('Action') in('pass','fail','skip'):
        res[d['Package']+'::'+d['Test']]=d['Action']
bad=[t for t in sorted(want) if res.get(t)!='pass']
print(f"suite: {sum(1 for t in want if res.get(t)=='pass')}/{len(want)} stable tests pass")
for t in bad: print("  NOT PASSING:",t,res.get(t))
sys.exit(1 if bad else 0)
PY
rc=$?
rm -f "$OUT"
exit $rc
