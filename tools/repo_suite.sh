#!/bin/bash
# Runs the repository's pinned suite with the guard OFF (default go, no tags) and
# compares with /root/.vp/BASELINE.json: every stable_pass test must pass.
# A test that fails is re-run up to 3 more times (bstree's TestBSTree_Concurrency
# fails in ~3% of runs on the pristine tree as well: it updates its expectation
# map outside the tree's lock).
# usage: tools/repo_suite.sh [repo-dir]
export GOFLAGS=-mod=mod GOPROXY=off GOSUMDB=off GOTOOLCHAIN=local
REPO="${1:-/repo}"
OUT=$(mktemp)
trap 'rm -f "$OUT"' EXIT TERM INT
(cd "$REPO" && go test -json -vet=off -count=1 -timeout 25m ./... 2>&1 | head -c 300000000 > "$OUT")
python3 - "$OUT" "$REPO" <<'PY'
import json,sys,subprocess
base=json.load(open('/root/.vp/BASELINE.json'))
want=set(base['stable_pass'])
def parse(lines):
    res={}
    for l in lines:
        try: d=json.loads(l)
        except Exception: continue
        if d.get('Test') and d.get('Action') in('pass','fail','skip'):
            res[d['Package']+'::'+d['Test']]=d['Action']
    return res
res=parse(open(sys.argv[1]))
bad=[t for t in sorted(want) if res.get(t)!='pass']
still=[]
for t in bad:
    pkg,name=t.split('::')
    ok=False
    for i in range(3):
        p=subprocess.run(['go','test','-json','-vet=off','-count=1','-run','^'+name+'$',pkg],cwd=sys.argv[2],capture_output=True,text=True)
        if parse(p.stdout.splitlines()).get(t)=='pass':
            ok=True; break
    print(("  flaky (passed on re-run): " if ok else "  NOT PASSING: ")+t)
    if not ok: still.append(t)
print(f"suite: {len(want)-len(still)}/{len(want)} stable tests pass")
sys.exit(1 if still else 0)
PY
rc=$?
rm -f "$OUT"
exit $rc
