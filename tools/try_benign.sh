#!/bin/bash
# Runs checks against a behaviour-preserving refactoring (false-alarm test), in a scratch worktree.
#   tools/try_benign.sh <dir with patch.diff> Cxx [Cyy ...]
# Prints one line: benign=<name> suite=<rc> Cxx:rc=..,viol=.. ; any rc != 0 deserves a look.
export GOFLAGS=-mod=mod GOPROXY=off GOSUMDB=off GOTOOLCHAIN=local
set -u
D=$(readlink -f "$1"); shift
VER=/verif
name=$(basename "$(dirname "$D")")-$(basename "$D")
WT=/tmp/mut/run/b-$name
mkdir -p /tmp/mut/run
git -C /repo worktree remove --force "$WT" >/dev/null 2>&1; rm -rf "$WT"
git -C /repo worktree add --detach "$WT" HEAD >/dev/null 2>&1 || { echo "worktree failed"; exit 2; }
trap '[ -n "${KEEP:-}" ] || { git -C /repo worktree remove --force "$WT" >/dev/null 2>&1; rm -rf "$WT"; }' EXIT
git -C "$WT" apply "$D/patch.diff" 2>/dev/null || git -C "$WT" apply --3way "$D/patch.diff" >/dev/null 2>&1 || { echo "benign=$name PATCH-DOES-NOT-APPLY"; exit 2; }
(cd "$WT" && go build ./...) >/tmp/mut/run/b-$name.build.log 2>&1 || { echo "benign=$name BUILD-FAILS"; exit 2; }
"$VER/tools/repo_suite.sh" "$WT" > /tmp/mut/run/b-$name.suite.log 2>&1; s=$?
res="benign=$name suite=$s"
for id in "$@"; do
  VERIF_DIR=$VER VERIF_REPO=$WT "$VER/bin/verifcheck" run "$id" "${TIER:-quick}" > /tmp/mut/run/b-$name.$id.log 2>&1; rc=$?
  nv=$(grep -c '^VIOLATION' /tmp/mut/run/b-$name.$id.log)
  res="$res $id:rc=$rc,viol=$nv"
done
echo "$res"
