#!/usr/bin/env python3
"""Systematic single-site mutation campaign against the quick checks (DESIGN §10).

  tools/mutation_campaign.py <mutants.jsonl> <outdir> [-P workers] [--only IDS-file]

For every mutant produced by tools/mutgen (byte splice of one non-test source file):
  A. in a scratch worktree of /repo (never /repo itself): apply, `go build ./...`, the pinned
     suite with the guard off (tools/repo_suite.sh, 240 s cap). A mutant that does not build or
     that the existing suite already rejects is not a "realistic change that passes the tests"
     and is dropped (verdict NOBUILD / SUITE-KILLS).
  B. the quick checks mapped to the mutated file, cheapest first, with VERIF_REPO=<worktree>;
     stops at the first check that reports (exit 1 + VIOLATION line) -> KILLED-BY <id>;
     exit 3/4 (inconclusive / child died without verdict: typically a mutant that hangs or
     exhausts memory) -> INCONCLUSIVE-BY <id> (kept apart, never counted as a catch);
     nothing reported -> ALIVE (to be triaged by hand: equivalent mutant, outside every
     statement, or a gap).
Results: <outdir>/results.tsv (appended; finished ids are skipped on restart).
"""
import json, os, subprocess, sys, threading, queue, signal, time, shutil

VER = '/verif'
ENV = dict(os.environ, GOFLAGS='-mod=mod', GOPROXY='off', GOSUMDB='off', GOTOOLCHAIN='local')
ROOTSET = ['C12', 'C13', 'C11', 'C14', 'C15', 'C16']
MAP = {
    'heap/': ['C03', 'C16', 'C01', 'C02'],
    'bstree/': ['C04', 'C01', 'C02'],
    'btree/': ['C10'],
    'cache/cache.go': ['C08', 'C18', 'C17', 'C01', 'C02'],
    'cache/lrucache.go': ['C07'],
    'trie/': ['C09', 'C01', 'C02'],
    'list/': ['C19', 'C05', 'C06', 'C01', 'C02'],
    'queue/': ['C05', 'C01', 'C02'],
    'stack/': ['C06', 'C01', 'C02'],
    'func.go': ['C18', 'C20', 'C17'],
    'memoize.go': ['C17', 'C08'],
    'string.go': ['C15'],
    'math.go': ['C13', 'C11', 'C12'],
    'range.go': ['C13'],
}

def checks_for(f):
    for k, v in MAP.items():
        if f.startswith(k):
            return v
    return ROOTSET

def run(cmd, cwd=None, env=None, timeout=None, out=None):
    """run in its own process group; kill the whole group on timeout; returns rc (124 = timeout)"""
    fh = open(out, 'wb') if out else subprocess.DEVNULL
    p = subprocess.Popen(cmd, cwd=cwd, env=env or ENV, stdout=fh, stderr=subprocess.STDOUT, start_new_session=True)
    try:
        rc = p.wait(timeout=timeout)
    except subprocess.TimeoutExpired:
        try: os.killpg(p.pid, signal.SIGKILL)
        except ProcessLookupError: pass
        p.wait(); rc = 124
    finally:
        try: os.killpg(p.pid, signal.SIGKILL)
        except (ProcessLookupError, PermissionError): pass
        if out: fh.close()
    return rc

def worker(k, q, outdir, lock, resf):
    wt = f'/root/scratch/mutw/{os.environ.get("MUTW","w")}{k}'
    subprocess.run(['git', '-C', '/repo', 'worktree', 'remove', '--force', wt], capture_output=True)
    shutil.rmtree(wt, ignore_errors=True)
    os.makedirs(os.path.dirname(wt), exist_ok=True)
    subprocess.run(['git', '-C', '/repo', 'worktree', 'add', '--detach', wt, 'HEAD'], capture_output=True, check=True)
    logd = os.path.join(outdir, 'logs'); os.makedirs(logd, exist_ok=True)
    while True:
        try: m = q.get_nowait()
        except queue.Empty: break
        mid = m['id']; path = os.path.join(wt, m['file'])
        src = open(path, 'rb').read()
        open(path, 'wb').write(src[:m['start']] + m['repl'].encode() + src[m['end']:])
        t0 = time.time(); verdict = ''; detail = ''
        try:
            if run(['go', 'build', './...'], cwd=wt, timeout=300, out=f'{logd}/{mid}.build.log') != 0:
                verdict = 'NOBUILD'
            elif run([f'{VER}/tools/repo_suite.sh', wt], timeout=240, out=f'{logd}/{mid}.suite.log') != 0:
                verdict = 'SUITE-KILLS'
            else:
                verdict = 'ALIVE'
                for cid in checks_for(m['file']):
                    log = f'{logd}/{mid}.{cid}.log'
                    rc = run([f'{VER}/bin/verifcheck', 'run', cid, 'quick'], env=dict(ENV, VERIF_DIR=VER, VERIF_REPO=wt), timeout=1500, out=log)
                    nv = sum(1 for l in open(log, errors='replace') if l.startswith('VIOLATION'))
                    detail += f'{cid}:rc={rc},viol={nv} '
                    if rc == 1 and nv > 0:
                        verdict = 'KILLED-BY ' + cid; break
                    if rc != 0:
                        verdict = 'INCONCLUSIVE-BY ' + cid; break
        finally:
            open(path, 'wb').write(src)
        if verdict in ('NOBUILD', 'SUITE-KILLS') or verdict.startswith('KILLED'):
            for f in os.listdir(logd):
                if f.startswith(mid + '.'): os.remove(os.path.join(logd, f))
        with lock:
            resf.write('\t'.join([mid, m['file'], str(m['line']), m['op'], verdict, detail.strip(), f'{time.time()-t0:.0f}s',
                                  json.dumps(m['orig']), json.dumps(m['repl'])]) + '\n'); resf.flush()
    subprocess.run(['git', '-C', '/repo', 'worktree', 'remove', '--force', wt], capture_output=True)
    shutil.rmtree(wt, ignore_errors=True)
    shutil.rmtree(f'{VER}/.build/alt/mutw-{os.environ.get("MUTW","w")}{k}', ignore_errors=True)

def main():
    mutf, outdir = sys.argv[1], sys.argv[2]
    P = 6; only = None
    a = sys.argv[3:]
    while a:
        if a[0] == '-P': P = int(a[1]); a = a[2:]
        elif a[0] == '--only': only = set(open(a[1]).read().split()); a = a[2:]
        else: raise SystemExit('bad arg ' + a[0])
    os.makedirs(outdir, exist_ok=True)
    resp = os.path.join(outdir, 'results.tsv')
    done = set()
    if os.path.exists(resp):
        done = {l.split('\t')[0] for l in open(resp)}
    q = queue.Queue()
    for l in open(mutf):
        m = json.loads(l)
        if m['id'] in done or (only is not None and m['id'] not in only): continue
        q.put(m)
    print(f'{q.qsize()} mutants to run, {len(done)} already done', flush=True)
    lock = threading.Lock()
    with open(resp, 'a') as resf:
        ts = [threading.Thread(target=worker, args=(k, q, outdir, lock, resf)) for k in range(P)]
        for t in ts: t.start()
        for t in ts: t.join()
    print('done')

if __name__ == '__main__':
    main()
