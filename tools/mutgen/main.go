// mutgen enumerates single-site syntactic mutants of the library's non-test sources.
// It prints one JSON object per line: {id,file,start,end,repl,op,line,orig}; a mutant is
// applied by replacing bytes [start,end) of file with repl. Used by tools/mutation_campaign.py
// (systematic counterpart to the hand-written seeded changes; see DESIGN §10).
//
//	go run ./tools/mutgen <repo-dir>
package main

import (
	"encoding/json"
	"fmt"
	"go/ast"
	"go/parser"
	"go/token"
	"os"
	"path/filepath"
	"sort"
	"strconv"
	"strings"
)

type mutant struct {
	ID    string `json:"id"`
	File  string `json:"file"`
	Start int    `json:"start"`
	End   int    `json:"end"`
	Repl  string `json:"repl"`
	Op    string `json:"op"`
	Line  int    `json:"line"`
	Orig  string `json:"orig"`
}

var binRepl = map[token.Token][]string{
	token.LSS:  {"<=", ">"},
	token.LEQ:  {"<", ">="},
	token.GTR:  {">=", "<"},
	token.GEQ:  {">", "<="},
	token.EQL:  {"!="},
	token.NEQ:  {"=="},
	token.ADD:  {"-"},
	token.SUB:  {"+"},
	token.MUL:  {"/"},
	token.QUO:  {"*"},
	token.REM:  {"/"},
	token.LAND: {"||"},
	token.LOR:  {"&&"},
}

var asgRepl = map[token.Token]string{
	token.ADD_ASSIGN: "-=",
	token.SUB_ASSIGN: "+=",
}

// gen2: with a second argument "gen2" only the two-statement operators are produced
// (swap of adjacent statements, removal of a Lock/Unlock pair), ids N....
func isIf(s ast.Stmt) bool { _, ok := s.(*ast.IfStmt); return ok }

func main() {
	root := os.Args[1]
	gen2 := len(os.Args) > 2 && os.Args[2] == "gen2"
	// gen3: "wrong variable" / "wrong field" slips: an identifier use replaced by another variable
	// declared in the same function, a selected field by another field selected in the same function
	// (the compiler filters the ill-typed ones), ids W....; every 7th by position hash is emitted.
	gen3 := len(os.Args) > 2 && os.Args[2] == "gen3"
	g3res := 0 // which residue class of the sample (optional third argument)
	if gen3 && len(os.Args) > 3 {
		g3res, _ = strconv.Atoi(os.Args[3])
	}
	var files []string
	filepath.Walk(root, func(p string, info os.FileInfo, err error) error {
		if err != nil {
			return nil
		}
		if info.IsDir() && strings.HasPrefix(info.Name(), ".") && p != root {
			return filepath.SkipDir
		}
		if strings.HasSuffix(p, ".go") && !strings.HasSuffix(p, "_test.go") && !strings.Contains(p, "verif_hooks") {
			files = append(files, p)
		}
		return nil
	})
	sort.Strings(files)
	enc := json.NewEncoder(os.Stdout)
	n := 0
	for _, f := range files {
		src, err := os.ReadFile(f)
		if err != nil {
			panic(err)
		}
		rel, _ := filepath.Rel(root, f)
		fset := token.NewFileSet()
		af, err := parser.ParseFile(fset, f, src, parser.ParseComments)
		if err != nil {
			panic(err)
		}
		off := func(p token.Pos) int { return fset.Position(p).Offset }
		emit := func(start, end int, repl, op string) {
			isG3 := strings.HasPrefix(op, "wrong-")
			if gen3 != isG3 {
				return
			}
			if !gen3 && gen2 != (strings.HasPrefix(op, "swap-stmts") || op == "del-lockpair") {
				return
			}
			n++
			orig := string(src[start:end])
			if len(orig) > 80 {
				orig = orig[:80] + "..."
			}
			pfx := "M"
			if gen2 {
				pfx = "N"
			}
			if gen3 {
				pfx = "W"
			}
			enc.Encode(mutant{ID: fmt.Sprintf("%s%04d", pfx, n), File: rel, Start: start, End: end, Repl: repl, Op: op,
				Line: fset.Position(token.Pos(fset.File(af.Pos()).Base() + start)).Line, Orig: orig})
		}
		// statement deletion needs to know which statements sit directly in a block / case body
		delStmt := func(s ast.Stmt) {
			switch st := s.(type) {
			case *ast.ExprStmt:
				emit(off(st.Pos()), off(st.End()), "", "del-call")
			case *ast.AssignStmt:
				if st.Tok != token.DEFINE {
					emit(off(st.Pos()), off(st.End()), "", "del-assign")
				}
			case *ast.IncDecStmt:
				emit(off(st.Pos()), off(st.End()), "", "del-incdec")
			case *ast.DeferStmt:
				emit(off(st.Pos()), off(st.End()), "", "del-defer")
				// defer f()  ->  f()   (runs at once instead of at exit)
				emit(off(st.Pos()), off(st.Call.Pos()), "", "undefer")
			case *ast.GoStmt:
				emit(off(st.Pos()), off(st.Call.Pos()), "", "ungo")
			case *ast.BranchStmt:
				if st.Tok == token.BREAK || st.Tok == token.CONTINUE {
					emit(off(st.Pos()), off(st.End()), "", "del-branch")
				}
			case *ast.ReturnStmt:
				if len(st.Results) == 0 {
					emit(off(st.Pos()), off(st.End()), "", "del-return")
				}
			case *ast.IfStmt:
				if st.Else == nil {
					emit(off(st.Pos()), off(st.End()), "", "del-if")
				} else {
					// drop the else branch
					emit(off(st.Body.End()), off(st.End()), "", "del-else")
				}
			}
		}
		simple := func(s ast.Stmt) bool {
			switch st := s.(type) {
			case *ast.ExprStmt, *ast.IncDecStmt, *ast.DeferStmt, *ast.GoStmt:
				return true
			case *ast.AssignStmt:
				return st.Tok != token.DEFINE
			}
			return false
		}
		isCall := func(s ast.Stmt, name string) (string, bool) {
			var c *ast.CallExpr
			switch st := s.(type) {
			case *ast.ExprStmt:
				c, _ = st.X.(*ast.CallExpr)
			case *ast.DeferStmt:
				c = st.Call
			}
			if c == nil {
				return "", false
			}
			if sel, ok := c.Fun.(*ast.SelectorExpr); ok && sel.Sel.Name == name {
				return string(src[off(sel.X.Pos()):off(sel.X.End())]), true
			}
			return "", false
		}
		pairs := func(list []ast.Stmt) {
			for i := 0; i+1 < len(list); i++ {
				a, b := list[i], list[i+1]
				if simple(a) && simple(b) || simple(a) && isIf(b) || isIf(a) && simple(b) {
					ta := string(src[off(a.Pos()):off(a.End())])
					tb := string(src[off(b.Pos()):off(b.End())])
					mid := string(src[off(a.End()):off(b.Pos())])
					if ta != tb {
						emit(off(a.Pos()), off(b.End()), tb+mid+ta, "swap-stmts")
					}
				}
			}
			// Lock ... Unlock pair on the same receiver in the same block: remove both
			for i, a := range list {
				for _, lk := range [][2]string{{"Lock", "Unlock"}, {"RLock", "RUnlock"}} {
					recv, ok := isCall(a, lk[0])
					if !ok {
						continue
					}
					for _, b := range list[i+1:] {
						if r2, ok := isCall(b, lk[1]); ok && r2 == recv {
							// one splice: blank both statements, keep what is between
							between := string(src[off(a.End()):off(b.Pos())])
							emit(off(a.Pos()), off(b.End()), between, "del-lockpair")
							break
						}
					}
				}
			}
		}
		for _, d := range af.Decls {
			fd, ok := d.(*ast.FuncDecl)
			if !ok || fd.Body == nil || !gen3 {
				continue
			}
			vars := map[string]bool{}
			fields := map[string]bool{}
			ast.Inspect(fd, func(nd ast.Node) bool {
				switch x := nd.(type) {
				case *ast.Ident:
					if x.Obj != nil && x.Obj.Kind == ast.Var && x.Name != "_" {
						vars[x.Name] = true
					}
				case *ast.SelectorExpr:
					if _, isCall := x.X.(*ast.CallExpr); !isCall {
						fields[x.Sel.Name] = true
					}
				}
				return true
			})
			names := func(m map[string]bool) []string {
				var o []string
				for k := range m {
					o = append(o, k)
				}
				sort.Strings(o)
				return o
			}
			vs, fs := names(vars), names(fields)
			called := map[*ast.Ident]bool{}
			ast.Inspect(fd.Body, func(nd ast.Node) bool {
				if c, ok := nd.(*ast.CallExpr); ok {
					if sel, ok := c.Fun.(*ast.SelectorExpr); ok {
						called[sel.Sel] = true
					}
				}
				return true
			})
			k := 0
			ast.Inspect(fd.Body, func(nd ast.Node) bool {
				switch x := nd.(type) {
				case *ast.Ident:
					if x.Obj == nil || x.Obj.Kind != ast.Var || x.Name == "_" || x.Obj.Pos() == x.Pos() {
						return true
					}
					for _, o := range vs {
						if o != x.Name {
							k++
							if (off(x.Pos())+k)%7 == g3res%7 {
								emit(off(x.Pos()), off(x.End()), o, "wrong-var "+x.Name+"->"+o)
							}
						}
					}
				case *ast.SelectorExpr:
					if called[x.Sel] {
						return true
					}
					for _, o := range fs {
						if o != x.Sel.Name {
							k++
							if (off(x.Sel.Pos())+k)%3 == g3res%3 {
								emit(off(x.Sel.Pos()), off(x.Sel.End()), o, "wrong-field "+x.Sel.Name+"->"+o)
							}
						}
					}
				}
				return true
			})
		}
		ast.Inspect(af, func(nd ast.Node) bool {
			switch x := nd.(type) {
			case *ast.BlockStmt:
				pairs(x.List)
			case *ast.CaseClause:
				pairs(x.Body)
			case *ast.CommClause:
				pairs(x.Body)
			}
			return true
		})
		ast.Inspect(af, func(nd ast.Node) bool {
			switch x := nd.(type) {
			case *ast.GenDecl:
				if x.Tok == token.IMPORT {
					return false
				}
			case *ast.BlockStmt:
				for _, s := range x.List {
					delStmt(s)
				}
			case *ast.CaseClause:
				for _, s := range x.Body {
					delStmt(s)
				}
			case *ast.CommClause:
				for _, s := range x.Body {
					delStmt(s)
				}
			case *ast.BinaryExpr:
				for _, r := range binRepl[x.Op] {
					emit(off(x.OpPos), off(x.OpPos)+len(x.Op.String()), r, "binop "+x.Op.String()+"->"+r)
				}
			case *ast.AssignStmt:
				if r, ok := asgRepl[x.Tok]; ok {
					emit(off(x.TokPos), off(x.TokPos)+2, r, "asgop "+x.Tok.String()+"->"+r)
				}
			case *ast.IncDecStmt:
				r := "--"
				if x.Tok == token.DEC {
					r = "++"
				}
				emit(off(x.TokPos), off(x.TokPos)+2, r, "incdec")
			case *ast.IfStmt:
				emit(off(x.Cond.Pos()), off(x.Cond.End()), "!("+string(src[off(x.Cond.Pos()):off(x.Cond.End())])+")", "neg-if")
			case *ast.ForStmt:
				if x.Cond != nil {
					emit(off(x.Cond.Pos()), off(x.Cond.End()), "!("+string(src[off(x.Cond.Pos()):off(x.Cond.End())])+")", "neg-for")
				}
			case *ast.UnaryExpr:
				if x.Op == token.NOT {
					emit(off(x.OpPos), off(x.OpPos)+1, "", "del-not")
				}
				if x.Op == token.SUB {
					emit(off(x.OpPos), off(x.OpPos)+1, "", "del-neg")
				}
			case *ast.BasicLit:
				if x.Kind == token.INT {
					if v, err := strconv.ParseInt(x.Value, 0, 64); err == nil {
						emit(off(x.Pos()), off(x.End()), strconv.FormatInt(v+1, 10), "lit+1")
						if v > 0 {
							emit(off(x.Pos()), off(x.End()), strconv.FormatInt(v-1, 10), "lit-1")
						}
					}
				}
			case *ast.Ident:
				if x.Name == "true" {
					emit(off(x.Pos()), off(x.End()), "false", "true->false")
				} else if x.Name == "false" {
					emit(off(x.Pos()), off(x.End()), "true", "false->true")
				}
			case *ast.CallExpr:
				if id, ok := x.Fun.(*ast.Ident); ok && len(x.Args) == 1 {
					if id.Name == "len" {
						emit(off(id.Pos()), off(id.End()), "cap", "len->cap")
					}
				}
				// RLock <-> Lock slips on the read path
				if sel, ok := x.Fun.(*ast.SelectorExpr); ok {
					switch sel.Sel.Name {
					case "Lock":
						emit(off(sel.Sel.Pos()), off(sel.Sel.End()), "RLock", "Lock->RLock")
					case "Unlock":
						emit(off(sel.Sel.Pos()), off(sel.Sel.End()), "RUnlock", "Unlock->RUnlock")
					}
				}
				// swap the first two arguments when there are exactly two
				if len(x.Args) == 2 {
					a := string(src[off(x.Args[0].Pos()):off(x.Args[0].End())])
					b := string(src[off(x.Args[1].Pos()):off(x.Args[1].End())])
					if a != b {
						emit(off(x.Args[0].Pos()), off(x.Args[1].End()), b+", "+a, "swap-args")
					}
				}
			case *ast.SliceExpr:
				// s[a:b] -> s[a:] / s[:b]
				if x.Low != nil && x.High != nil && !x.Slice3 {
					emit(off(x.Low.Pos()), off(x.Low.End()), "", "slice-drop-low")
					emit(off(x.High.Pos()), off(x.High.End()), "", "slice-drop-high")
				}
			}
			return true
		})
	}
	fmt.Fprintf(os.Stderr, "%d mutants over %d files\n", n, len(files))
}
