#!/bin/bash
# Runs every seeded change under /verif/seeded against the check of its property (quick tier)
# in scratch worktrees and writes seeded/RESULTS.tsv: id, property, exit code, VIOLATION lines.
#   tools/seeded_matrix.sh [-P n] [id-glob]
export GOFLAGS=-mod=mod GOPROXY=off GOSUMDB=off GOTOOLCHAIN=local
cd /verif || exit 2
P=3; [ "${1:-}" = "-P" ] && { P=$2; shift 2; }
glob="${1:-*}"
go1.26.8 build -o bin/verifcheck ./cmd/verifcheck || exit 2
# every change x the check of its own property, plus the checks named in meta.json "caught_by"
one() { d=$1; extra=$(jq -r '(.caught_by // []) | join(" ")' "$d/meta.json"); own=$(jq -r .property "$d/meta.json"); SKIP_CONFIRM=1 tools/try_seeded.sh "$d" $own $extra; }
export -f one
ls -d seeded/$glob/ | sed 's#/$##' | xargs -P "$P" -n 1 bash -c 'one "$0"' 2>&1 | grep '^seeded=' | sort > /tmp/mut/matrix.$$.txt
{
  echo -e "seeded\tproperty\tchecks_run\tverdict\tnote"
  while read -r line; do
    id=$(echo "$line" | sed -n 's/^seeded=seeded-\([^ ]*\) .*/\1/p')
    prop=$(jq -r .property "seeded/$id/meta.json")
    runs=$(echo "$line" | grep -o 'C[0-9]*:rc=[0-9]*,viol=[0-9]*' | tr '\n' ' ')
    own=$(echo "$runs" | tr ' ' '\n' | grep "^$prop:" | head -1)
    v=MISSED; note=""
    if echo "$own" | grep -q 'rc=1,viol=[1-9]'; then v=CAUGHT
    else
      for r in $runs; do
        if [ "${r%%:*}" != "$prop" ] && echo "$r" | grep -q 'rc=1,viol=[1-9]'; then v="CAUGHT-BY-${r%%:*}"; fi
      done
    fi
    nc=$(jq -r '.not_claimed // empty' "seeded/$id/meta.json"); ob=$(jq -r '.obsolete // empty' "seeded/$id/meta.json")
    [ "$v" = MISSED ] && [ -n "$nc" ] && { v=NOT-CLAIMED; note="$nc"; }
    [ "$v" = MISSED ] && [ -n "$ob" ] && { v=OBSOLETE; note="$ob"; }
    echo -e "$id\t$prop\t$runs\t$v\t$note"
  done < /tmp/mut/matrix.$$.txt
} > seeded/RESULTS.tsv.new
if [ "$glob" = "*" ]; then mv seeded/RESULTS.tsv.new seeded/RESULTS.tsv; else cat seeded/RESULTS.tsv.new; rm seeded/RESULTS.tsv.new; fi
rm -f /tmp/mut/matrix.$$.txt
