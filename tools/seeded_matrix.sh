#!/bin/bash
# Runs every seeded change under /verif/seeded against the check of its property (quick tier)
# in scratch worktrees and writes seeded/RESULTS.tsv: id, property, exit code, VIOLATION lines.
#   tools/seeded_matrix.sh [-P n] [id-glob]
export GOFLAGS=-mod=mod GOPROXY=off GOSUMDB=off GOTOOLCHAIN=local
cd /verif || exit 2
P=3; [ "${1:-}" = "-P" ] && { P=$2; shift 2; }
glob="${1:-*}"
go1.26.8 build -o bin/verifcheck ./cmd/verifcheck || exit 2
ls -d seeded/$glob/ | sed 's#/$##' | SKIP_CONFIRM=1 xargs -P "$P" -n 1 tools/try_seeded.sh 2>&1 | grep '^seeded=' | sort > /tmp/mut/matrix.$$.txt
{
  echo -e "seeded\tproperty\tcheck_exit\tviolation_lines\tverdict"
  while read -r line; do
    id=$(echo "$line" | sed -n 's/^seeded=seeded-\([^ ]*\) .*/\1/p')
    prop=$(echo "$line" | sed -n 's/.* property=\([^ ]*\) .*/\1/p')
    rc=$(echo "$line" | sed -n 's/.*:rc=\([0-9]*\),viol=.*/\1/p')
    nv=$(echo "$line" | sed -n 's/.*,viol=\([0-9]*\)$/\1/p')
    v=MISSED; [ "$rc" = 1 ] && [ "$nv" -gt 0 ] && v=CAUGHT
    echo -e "$id\t$prop\t$rc\t$nv\t$v"
  done < /tmp/mut/matrix.$$.txt
} > seeded/RESULTS.tsv.new
if [ "$glob" = "*" ]; then mv seeded/RESULTS.tsv.new seeded/RESULTS.tsv; else cat seeded/RESULTS.tsv.new; rm seeded/RESULTS.tsv.new; fi
rm -f /tmp/mut/matrix.$$.txt
