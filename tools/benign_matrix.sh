#!/bin/bash
# Runs the checks listed in benign/CHECKS.txt (file group -> checks) against every
# behaviour-preserving refactoring under benign/ and writes benign/RESULTS.tsv.
# Any line that is not "suite=0" with rc=0 everywhere is a false alarm to investigate.
cd /verif || exit 2
P=3; [ "${1:-}" = "-P" ] && { P=$2; shift 2; }
export GOFLAGS=-mod=mod GOPROXY=off GOSUMDB=off GOTOOLCHAIN=local
go1.26.8 build -o bin/verifcheck ./cmd/verifcheck || exit 2
while read n checks; do for d in benign/$n-b*; do [ -d "$d" ] && echo "$d $checks"; done; done < benign/CHECKS.txt |
  xargs -P "$P" -L 1 tools/try_benign.sh 2>&1 | grep '^benign' | sort > benign/RESULTS.tsv
grep -c . benign/RESULTS.tsv
grep -v -E '^benign=[a-z0-9-]+ suite=0( C[0-9]+:rc=0,viol=0)+$' benign/RESULTS.tsv && exit 1
exit 0
