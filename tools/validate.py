#!/usr/bin/env python3-vt
# Validates MANIFEST.json and every evidence file against the schemas.
import json,sys,glob,jsonschema
ok=True
m=json.load(open('/verif/MANIFEST.json')); s=json.load(open('/root/.vp/MANIFEST.schema.json'))
try: jsonschema.validate(m,s); print('MANIFEST ok: %d checks, %d not_applicable'%(len(m['checks']),len(m.get('not_applicable',[]))))
except Exception as e: ok=False; print('MANIFEST INVALID',e)
s=json.load(open('/root/.vp/EVIDENCE.schema.json'))
for f in sorted(glob.glob('/verif/evidence/*.json')):
    try: jsonschema.validate(json.load(open(f)),s); print('ok',f)
    except Exception as e: ok=False; print('INVALID',f,str(e)[:300])
sys.exit(0 if ok else 1)
