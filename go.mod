module verif

go 1.25

require github.com/esimov/gogu v0.0.0

require (
	github.com/anishathalye/porcupine v1.3.0 // indirect
	golang.org/x/exp v0.0.0-20230303215020-44a13b063f3e // indirect
	golang.org/x/sync v0.1.0 // indirect
)

replace github.com/esimov/gogu => /repo
