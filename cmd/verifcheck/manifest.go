package main

import (
	"encoding/json"
	"fmt"
	"os"
	"os/exec"
	"sort"
	"strings"
)

// allIDs are the properties of /verif/properties.jsonl.
var allIDs = []string{"C01", "C02", "C03", "C04", "C05", "C06", "C07", "C08", "C09", "C10",
	"C11", "C12", "C13", "C14", "C15", "C16", "C17", "C18", "C19", "C20"}

func hookCommits() []string {
	out, err := exec.Command("git", "-C", repoDir, "log", "--format=%H %s").Output()
	if err != nil {
		return []string{}
	}
	cs := []string{}
	for _, l := range strings.Split(string(out), "\n") {
		if strings.Contains(l, " verif hook:") {
			cs = append(cs, strings.Fields(l)[0])
		}
	}
	return cs
}

func writeManifest() {
	m := map[string]any{
		"version":   1,
		"setup_cmd": "./check setup",
		"hooks": map[string]any{
			"guard":            "verif",
			"enable":           "go1.26.8 test -c -tags verif (GOFLAGS=-mod=mod GOTOOLCHAIN=local; replace github.com/esimov/gogu => /repo, or => a scratch copy with the sync shim for C01/C02)",
			"baseline_off_cmd": "cd /repo && GOFLAGS=-mod=mod GOPROXY=off GOSUMDB=off go test -json -vet=off -count=1 -timeout 25m ./...",
			"source_commits":   hookCommits(),
			"add_only":         true,
		},
		"engines": []map[string]any{{
			"name": "verifcheck", "path": "cmd/verifcheck",
			"serves_properties": allIDs,
			"kind_free_text":    "runtime monitoring driver: rebuilds the monitors (Go test binaries under props/) against /repo's working tree, runs them as child processes (race detector, virtual time, sync shim), confirms crashes/hangs in isolation, applies known_findings.json, writes evidence and replay files",
		}},
		"notes": "Technique family: runtime monitoring and sanitizers. Every check observes executions of the real code built from /repo's current working tree; see DESIGN.md. Known findings: known_findings.json.",
	}
	var checks []map[string]any
	var na []map[string]any
	ids := append([]string(nil), allIDs...)
	sort.Strings(ids)
	for _, id := range ids {
		p := props[id]
		if p == nil {
			na = append(na, map[string]any{"property_id": id, "reason": "monitor not yet implemented in this revision of /verif (planned: DESIGN.md §4 " + id + ")"})
			continue
		}
		checks = append(checks, map[string]any{
			"property_id":         id,
			"quick_cmd":           "./check " + id + " --tier quick",
			"thorough_cmd":        "./check " + id + " --tier thorough",
			"evidence_file":       "evidence/" + id + ".json",
			"replay_cmd_template": "./check replay {path}",
			"engine":              "verifcheck",
			"technique":           p.Technique,
			"level_claimed": map[string]any{
				"category":   "exploration",
				"text":       p.Level,
				"design_ref": "DESIGN.md §4 " + id,
			},
			"level_note": strings.Join(p.Assumptions, "; "),
		})
	}
	m["checks"] = checks
	if na == nil {
		na = []map[string]any{}
	}
	m["not_applicable"] = na
	raw, _ := json.MarshalIndent(m, "", " ")
	fmt.Println(string(raw))
	_ = os.Stdout
}
