package main

import (
	"bufio"
	"bytes"
	"encoding/json"
	"fmt"
	"os"
	"path/filepath"
	"regexp"
	"sort"
	"strings"
	"time"

	"verif/internal/core"
)

type agg struct {
	id, tier     string
	evals        int64
	rules        []string
	samples      []any
	counters     map[string]int64
	exhaustive   map[string]int64
	extra        map[string]any
	monitors     map[string]core.MonitorStat
	viol         map[string]*core.ViolationRec
	inconclusive int64
	notes        []string
	incomplete   int
	children     []map[string]any
	buildS       float64
	raceBlocks   int
}

func newAgg(id, tier string) *agg {
	return &agg{id: id, tier: tier, counters: map[string]int64{}, exhaustive: map[string]int64{},
		extra: map[string]any{}, monitors: map[string]core.MonitorStat{}, viol: map[string]*core.ViolationRec{}}
}

func (a *agg) addViolation(v core.ViolationRec) {
	if v.Property == "" {
		v.Property = a.id
	}
	if v.Count == 0 {
		v.Count = 1
	}
	old := a.viol[v.Sig]
	if old == nil {
		c := v
		a.viol[v.Sig] = &c
		return
	}
	old.Count += v.Count
	if len(v.Case) > 0 && (len(old.Case) == 0 || len(v.Case) < len(old.Case)) {
		old.Case, old.Detail, old.Monitor = v.Case, v.Detail, v.Monitor
	}
}

func (a *agg) addChild(r *childResult) {
	info := map[string]any{"variant": r.variant.Name, "shard": r.shard, "exit": r.exitCode, "wall_s": round2(r.wall)}
	if r.timedOut {
		info["timed_out"] = true
	}
	a.children = append(a.children, info)
	s := r.sum
	if s == nil {
		return
	}
	info["evaluations"] = s.Evaluations
	a.evals += s.Evaluations
	for _, ru := range s.Rules {
		if !contains(a.rules, ru) {
			a.rules = append(a.rules, ru)
		}
	}
	for _, sm := range s.Samples {
		if len(a.samples) < 24 {
			a.samples = append(a.samples, sm)
		}
	}
	for k, v := range s.Counters {
		a.counters[k] += v
	}
	for k, v := range s.Exhaustive {
		if v > a.exhaustive[k] {
			a.exhaustive[k] = v
		}
	}
	for k, v := range s.Extra {
		if old, ok := a.extra[k]; ok {
			if of, ok1 := old.(float64); ok1 {
				if nf, ok2 := v.(float64); ok2 {
					a.extra[k] = of + nf
				}
			}
			continue
		}
		a.extra[k] = v
	}
	for k, m := range s.Monitors {
		o := a.monitors[k]
		o.Evaluations += m.Evaluations
		o.Distinct += m.Distinct // shards work on disjoint case sets
		o.Violations += m.Violations
		a.monitors[k] = o
	}
	a.inconclusive += s.Inconclusive
	for _, v := range s.Violations {
		a.addViolation(v)
	}
}

func contains(xs []string, x string) bool {
	for _, y := range xs {
		if x == y {
			return true
		}
	}
	return false
}

func round2(f float64) float64 { return float64(int64(f*100+0.5)) / 100 }

// ---------------------------------------------------------------- race reports

var (
	reGeneric = regexp.MustCompile(`\[[^\]]*\]`)
	reRunLine = regexp.MustCompile(`^=== (?:RUN|CONT)\s+(\S+)`)
)

type raceBlock struct {
	subtest string
	text    []string
}

// normFrame turns "github.com/esimov/gogu/heap.(*Heap[go.shape.int]).Push()" into "heap.(*Heap).Push".
func normFrame(s string) string {
	s = strings.TrimSpace(s)
	if i := strings.LastIndex(s, "("); i > 0 && strings.HasSuffix(s, ")") {
		// drop the trailing argument list "()" / "(...)"
		if j := strings.LastIndex(s, ")"); j == len(s)-1 {
			s = s[:i]
		}
	}
	for {
		t := reGeneric.ReplaceAllString(s, "")
		if t == s {
			break
		}
		s = t
	}
	s = strings.TrimPrefix(s, "github.com/esimov/gogu/")
	s = strings.TrimPrefix(s, "github.com/esimov/")
	s = strings.ReplaceAll(s, ".func", ".func") // closures keep their index
	return s
}

// raceSig reduces one report to the unordered pair of outermost library frames
// (or, when the access itself is made by harness code on returned data, the
// harness function that made it).
func raceSig(lines []string) string {
	var stacks [][]string
	var cur []string
	in := false
	for _, l := range lines {
		t := strings.TrimSpace(l)
		switch {
		case strings.HasPrefix(t, "Write at ") || strings.HasPrefix(t, "Read at ") ||
			strings.HasPrefix(t, "Previous write at ") || strings.HasPrefix(t, "Previous read at ") ||
			strings.HasPrefix(t, "Atomic") || strings.HasPrefix(t, "Previous atomic"):
			if in && cur != nil {
				stacks = append(stacks, cur)
			}
			cur, in = []string{}, true
		case strings.HasPrefix(t, "Goroutine ") || strings.HasPrefix(t, "Location "):
			if in {
				stacks = append(stacks, cur)
			}
			cur, in = nil, false
		case in && t == "":
			stacks = append(stacks, cur)
			cur, in = nil, false
		case in && !strings.HasPrefix(l, "      ") && strings.HasPrefix(l, "  "):
			cur = append(cur, t)
		}
	}
	if in && cur != nil {
		stacks = append(stacks, cur)
	}
	var ends []string
	for _, st := range stacks {
		if len(st) == 0 {
			continue
		}
		pick := ""
		// st[0] is the innermost frame
		if !strings.Contains(st[0], "github.com/esimov/gogu/") {
			// access made outside the library: the harness frame that did it
			pick = "caller:" + normFrame(st[0])
			// runtime helpers (mapaccess, growslice...) are not informative: take first non-runtime frame
			for _, f := range st {
				if !strings.HasPrefix(f, "runtime.") && !strings.HasPrefix(f, "internal/") {
					if strings.Contains(f, "github.com/esimov/gogu/") {
						pick = ""
					} else {
						pick = "caller:" + normFrame(f)
					}
					break
				}
			}
		}
		if pick == "" {
			for _, f := range st { // outermost library frame = last one in the list that is in gogu
				if strings.Contains(f, "github.com/esimov/gogu/") && !strings.Contains(f, "/vsync.") {
					pick = normFrame(f)
				}
			}
		}
		if pick == "" {
			pick = normFrame(st[0])
		}
		ends = append(ends, pick)
		if len(ends) == 2 {
			break
		}
	}
	sort.Strings(ends)
	return "race:" + strings.Join(ends, " <-> ")
}

func (a *agg) addRaces(r *childResult) {
	f, err := os.Open(r.logPath)
	if err != nil {
		return
	}
	defer f.Close()
	sc := bufio.NewScanner(f)
	sc.Buffer(make([]byte, 1<<20), 1<<24)
	curTest := ""
	var blk *raceBlock
	flush := func() {
		if blk == nil {
			return
		}
		a.raceBlocks++
		sig := raceSig(blk.text)
		txt := strings.Join(blk.text, "\n")
		if len(txt) > 6000 {
			txt = txt[:6000] + "\n..."
		}
		c, _ := json.Marshal(map[string]any{"subtest": blk.subtest, "variant": r.variant.Name, "shard": r.shard})
		a.addViolation(core.ViolationRec{Monitor: "race-detector", Sig: sig, Detail: txt, Case: c, Count: 1})
		blk = nil
	}
	for sc.Scan() {
		l := sc.Text()
		if m := reRunLine.FindStringSubmatch(l); m != nil {
			curTest = m[1]
		}
		if strings.HasPrefix(l, "WARNING: DATA RACE") {
			flush()
			blk = &raceBlock{subtest: curTest}
			continue
		}
		if blk != nil {
			if strings.HasPrefix(l, "==================") {
				flush()
				continue
			}
			blk.text = append(blk.text, l)
		}
	}
	flush()
}

// ---------------------------------------------------------------- incomplete children

func tailFatal(logPath string) string {
	b, err := os.ReadFile(logPath)
	if err != nil {
		return ""
	}
	for _, l := range strings.Split(string(b), "\n") {
		if strings.HasPrefix(l, "fatal error:") || strings.HasPrefix(l, "panic:") ||
			strings.HasPrefix(l, "runtime: goroutine stack exceeds") {
			return core.TrimPanic(l)
		}
	}
	return ""
}

type slotCase struct {
	Monitor string
	Case    json.RawMessage
}

func readSlots(path string) []slotCase {
	b, err := os.ReadFile(path)
	if err != nil {
		return nil
	}
	var out []slotCase
	for off := 0; off < len(b); off += 8192 {
		end := off + 8192
		if end > len(b) {
			end = len(b)
		}
		chunk := b[off:end]
		i := strings.IndexByte(string(chunk), '\n')
		if i <= 0 {
			continue
		}
		mon := string(chunk[:i])
		rest := chunk[i+1:]
		j := strings.IndexByte(string(rest), '\n')
		if j <= 0 {
			continue
		}
		var n int
		fmt.Sscanf(string(rest[:j]), "%d", &n)
		body := rest[j+1:]
		if n <= 0 || n > len(body) {
			continue // truncated (case larger than a slot): cannot be re-executed
		}
		raw := json.RawMessage(append([]byte(nil), body[:n]...))
		if !json.Valid(raw) {
			continue
		}
		out = append(out, slotCase{Monitor: mon, Case: raw})
	}
	return out
}

func (a *agg) handleIncomplete(ctx *runCtx, r *childResult) {
	fatal := tailFatal(r.logPath)
	logTail := tailOf(r.logPath, 4000)
	if r.timedOut {
		a.incomplete++
		a.notes = append(a.notes, fmt.Sprintf("child %s/%d hit the %.0fs wall-clock safety net (inconclusive)", r.variant.Name, r.shard, ctx.timeout.Seconds()))
		fmt.Printf("INCONCLUSIVE property=%s child=%s/%d wall-clock safety net\n", a.id, r.variant.Name, r.shard)
		return
	}
	type cand struct {
		kind string
		sc   slotCase
	}
	var cands []cand
	if b, err := os.ReadFile(filepath.Join(r.outDir, "aborts.jsonl")); err == nil {
		for _, l := range strings.Split(string(b), "\n") {
			if strings.TrimSpace(l) == "" {
				continue
			}
			var rec struct {
				Kind    string          `json:"kind"`
				Monitor string          `json:"monitor"`
				Case    json.RawMessage `json:"case"`
			}
			if json.Unmarshal([]byte(l), &rec) == nil {
				cands = append(cands, cand{rec.Kind, slotCase{rec.Monitor, rec.Case}})
			}
		}
	}
	if len(cands) == 0 {
		for _, sc := range readSlots(filepath.Join(r.outDir, "slots")) {
			cands = append(cands, cand{"crash", sc})
		}
	}
	confirmed := 0
	tries := 1
	if r.variant.Shim != "" || r.variant.Race {
		tries = 5 // concurrent scenarios: the crash needs an interleaving
	}
	if len(cands) > 24 {
		cands = cands[:24]
	}
	for _, c := range cands {
		rf := core.ReplayFile{Property: a.id, Monitor: c.sc.Monitor, Sig: c.kind, Seed: seed(), Tier: ctx.tier, Case: c.sc.Case}
		raw, _ := json.MarshalIndent(rf, "", " ")
		p := filepath.Join(ctx.work, fmt.Sprintf("confirm-%d.json", time.Now().UnixNano()))
		os.WriteFile(p, raw, 0o644)
		for t := 0; t < tries; t++ {
			rr := ctx.runChild(r.variant, r.bin, 0, p, 3*time.Minute)
			if rr.sum != nil && rr.sum.Complete {
				// completed: whatever it found is reported normally
				for _, v := range rr.sum.Violations {
					a.addViolation(v)
				}
				continue
			}
			kind := c.kind
			f2 := tailFatal(rr.logPath)
			if kind == "crash" && f2 != "" {
				kind = "crash:" + f2
			}
			detail := fmt.Sprintf("child ended abnormally (%s) on this case and did so again when the case was re-executed alone in a fresh process (exit %d).\n%s",
				kind, rr.exitCode, tailOf(rr.logPath, 3000))
			a.addViolation(core.ViolationRec{Monitor: c.sc.Monitor, Sig: kind, Detail: detail, Case: c.sc.Case, Count: 1})
			confirmed++
			break
		}
	}
	if confirmed == 0 {
		if strings.Contains(fatal, "concurrent map") {
			// The runtime's own detector is an oracle: no reproduction needed.
			var cs []json.RawMessage
			for _, c := range cands {
				cs = append(cs, c.sc.Case)
			}
			raw, _ := json.Marshal(map[string]any{"candidates": cs})
			a.addViolation(core.ViolationRec{Monitor: "runtime-fatal", Sig: "fatal:" + fatal, Detail: logTail, Case: raw, Count: 1})
			return
		}
		a.incomplete++
		a.notes = append(a.notes, fmt.Sprintf("child %s/%d ended abnormally (exit %d, %q) and no announced case reproduced it in isolation (inconclusive)", r.variant.Name, r.shard, r.exitCode, fatal))
		fmt.Printf("INCONCLUSIVE property=%s child=%s/%d abnormal end not reproduced (exit %d %s)\n", a.id, r.variant.Name, r.shard, r.exitCode, fatal)
		if os.Getenv("VERIF_DEBUG") != "" {
			fmt.Println(logTail)
		}
	}
}

func tailOf(path string, n int) string {
	b, err := os.ReadFile(path)
	if err != nil {
		return ""
	}
	if len(b) > n {
		// prefer the region around the first fatal line
		s := string(b)
		for _, key := range []string{"fatal error:", "panic:", "goroutine stack exceeds"} {
			if i := strings.Index(s, key); i >= 0 {
				e := i + n
				if e > len(s) {
					e = len(s)
				}
				return s[i:e]
			}
		}
		return s[len(s)-n:]
	}
	return string(b)
}

// ---------------------------------------------------------------- known findings

type finding struct {
	Property string `json:"property"`
	Status   string `json:"status"` // "known" | "fixed"
	Sig      string `json:"sig,omitempty"`
	Commit   string `json:"commit,omitempty"`
	What     string `json:"what"`
	Line     string `json:"line,omitempty"` // "fixed: property=<id> <commit> <what failed>"
}

type findingsFile struct {
	Findings []finding `json:"findings"`
}

func loadFindings() []finding {
	b, err := os.ReadFile(filepath.Join(verifDir, "known_findings.json"))
	if err != nil {
		return nil
	}
	var ff findingsFile
	if json.Unmarshal(b, &ff) != nil {
		return nil
	}
	return ff.Findings
}

func knownSigsEnv(id string) string {
	var out []string
	for _, k := range loadFindings() {
		if k.Status == "known" && k.Property == id {
			out = append(out, k.Sig)
		}
	}
	return strings.Join(out, "\x1f")
}

// ---------------------------------------------------------------- finish

// artefactDir is where evidence and replay files go: /verif itself, except when the
// run is pointed at another tree with VERIF_REPO (seeded-change experiments), which
// must not overwrite the evidence of /repo.
func artefactDir() string {
	if repoDir == "/repo" {
		return verifDir
	}
	return filepath.Join(verifDir, ".build", "alt", filepath.Base(filepath.Dir(repoDir))+"-"+filepath.Base(repoDir))
}

func sigFile(sig string) string {
	return fmt.Sprintf("%016x", core.HashString(sig))
}

func (a *agg) finish(p *propCfg, start time.Time, rp *replayReq) int {
	kfs := loadFindings()
	sigs := make([]string, 0, len(a.viol))
	for s := range a.viol {
		sigs = append(sigs, s)
	}
	sort.Strings(sigs)
	nViol, nKnown := 0, 0
	var violList []map[string]any
	printed := 0
	for _, s := range sigs {
		v := a.viol[s]
		var kf *finding
		for i := range kfs {
			if kfs[i].Status == "known" && kfs[i].Property == a.id && kfs[i].Sig == s {
				kf = &kfs[i]
			}
		}
		if kf != nil {
			nKnown++
			fmt.Printf("KNOWN-FINDING: property=%s %s (sig=%s, seen %d times)\n", a.id, kf.What, s, v.Count)
			violList = append(violList, map[string]any{"sig": s, "known_finding": true, "count": v.Count})
			continue
		}
		nViol++
		dir := filepath.Join(artefactDir(), "replays", a.id)
		os.MkdirAll(dir, 0o755)
		path := filepath.Join(dir, sigFile(s)+".json")
		rf := core.ReplayFile{Property: a.id, Monitor: v.Monitor, Sig: s, Detail: v.Detail, Seed: seed(), Tier: a.tier, Case: v.Case}
		if len(rf.Case) == 0 {
			rf.Case = json.RawMessage("null")
		}
		raw, _ := json.MarshalIndent(rf, "", " ")
		os.WriteFile(path, raw, 0o644)
		violList = append(violList, map[string]any{"sig": s, "count": v.Count, "replay": path})
		if printed < 20 {
			printed++
			fmt.Printf("VIOLATION property=%s replay=%s\n", a.id, path)
			d := v.Detail
			if len(d) > 1500 {
				d = d[:1500] + " …"
			}
			fmt.Printf("  sig: %s\n  monitor: %s  occurrences: %d\n  %s\n", s, v.Monitor, v.Count, strings.ReplaceAll(d, "\n", "\n  "))
			var cb bytes.Buffer
			if len(v.Case) > 0 && json.Compact(&cb, v.Case) == nil && cb.Len() < 1500 {
				fmt.Printf("  case: %s\n", cb.String())
			}
		}
	}
	if nViol > printed {
		fmt.Printf("(%d further distinct violation signatures not printed; all are in the evidence file)\n", nViol-printed)
	}
	for _, k := range kfs {
		if k.Status == "known" && k.Property == a.id {
			if _, seen := a.viol[k.Sig]; !seen && rp == nil {
				fmt.Printf("NOTE: listed known finding not observed in this run: property=%s sig=%s\n", a.id, k.Sig)
			}
		}
	}

	var distinct int64
	dead := []string{}
	for name, m := range a.monitors {
		distinct += m.Distinct
		if m.Evaluations == 0 {
			dead = append(dead, name)
		}
	}
	sort.Strings(dead)
	wall := time.Since(start).Seconds()

	if rp != nil {
		fmt.Printf("replay property=%s sig=%q: %d violation signature(s) reproduced, %d known\n", a.id, rp.rf.Sig, nViol, nKnown)
		if nViol > 0 {
			return 1
		}
		return 0
	}

	cov := map[string]any{
		"evaluations":          a.evals,
		"distinct_nontrivial":  distinct,
		"rule":                 strings.Join(a.rules, " || "),
		"samples":              a.samples,
		"exhaustive":           false,
		"exhaustive_subspaces": a.exhaustive,
		"monitors":             a.monitors,
		"counters":             a.counters,
		"children":             a.children,
		"inconclusive":         a.inconclusive,
		"incomplete_children":  a.incomplete,
		"race_reports":         a.raceBlocks,
		"violation_signatures": violList,
		"known_findings_seen":  nKnown,
		"build_s":              round2(a.buildS),
		"notes":                a.notes,
		"technique":            p.Technique,
	}
	for k, v := range a.extra {
		cov["x_"+k] = v
	}
	if a.samples == nil {
		cov["samples"] = []any{}
	}
	ev := map[string]any{
		"property_id": a.id,
		"tier":        a.tier,
		"seed":        int64(seed()),
		"level":       "exploration",
		"coverage":    cov,
		"assumptions": p.Assumptions,
		"wall_s":      round2(wall),
		"violations":  nViol,
	}
	raw, _ := json.MarshalIndent(ev, "", " ")
	os.MkdirAll(filepath.Join(artefactDir(), "evidence"), 0o755)
	os.WriteFile(filepath.Join(artefactDir(), "evidence", a.id+".json"), append(raw, '\n'), 0o644)

	status := "held on what was observed"
	code := 0
	switch {
	case nViol > 0:
		status, code = "VIOLATED", 1
	case a.incomplete > 0:
		status, code = "INCONCLUSIVE (a child did not complete)", 3
	case a.evals == 0 || len(dead) > 0 || distinct < 2:
		status, code = fmt.Sprintf("INCONCLUSIVE (monitor observed nothing: %v)", dead), 3
	}
	fmt.Printf("%s %s: %s — %d evaluations, %d distinct non-trivial, %d monitors, %d race reports, %d known findings, %d inconclusive, build %.1fs, total %.1fs\n",
		a.id, a.tier, status, a.evals, distinct, len(a.monitors), a.raceBlocks, nKnown, a.inconclusive, a.buildS, wall)
	return code
}
