// verifcheck is the driver half of the framework (DESIGN §2): it rebuilds the
// monitors against /repo's current working tree, runs them as child processes,
// confirms crashes/hangs by isolated re-execution, applies known_findings.json,
// writes evidence/<id>.json and replay files and sets the exit code.
//
//	verifcheck run <Cxx> [quick|thorough]
//	verifcheck replay <path>
//
// Exit: 0 held (or only known findings) · 1 violation · 2 build failed ·
// 3 inconclusive (a monitor observed nothing / a child did not complete).
package main

import (
	"encoding/json"
	"fmt"
	"os"
	"os/exec"
	"os/signal"
	"path/filepath"
	"regexp"
	"sort"
	"strconv"
	"strings"
	"sync"
	"syscall"
	"time"

	"verif/internal/core"
	"verif/internal/shimrw"
)

const goTool = "go1.26.8"

var (
	verifDir = mustVerifDir()
	repoDir  = envOr("VERIF_REPO", "/repo")
)

func envOr(k, d string) string {
	if v := os.Getenv(k); v != "" {
		return v
	}
	return d
}

func mustVerifDir() string {
	if v := os.Getenv("VERIF_DIR"); v != "" {
		return v
	}
	wd, _ := os.Getwd()
	return wd
}

// variant = one build of a property's test package + how often/with what it runs.
type variant struct {
	Name    string
	Race    bool
	Shim    string // "" | "jitter" | "tracked": build against a scratch copy with vsync
	Run     string // -test.run regex ("" = all)
	Shards  int    // number of children (VERIF_SHARD=i/n)
	Env     []string
	Verbose bool  // -test.v (needed to attribute race reports to sub-tests)
	Procs   []int // per-shard GOMAXPROCS values (cycled); empty = inherit
	Pkg     string // test package of this variant ("" = the property's own)
	// Fuzz: run this native Go fuzz target (coverage-guided) instead of the tests, for FuzzExecs
	// executions; Monitor is the monitor under which a failing input is filed (its case is
	// replayable through the ordinary replay path)
	Fuzz      string
	FuzzExecs int
	Monitor   string
}

type propCfg struct {
	ID       string
	Pkg      string
	Variants func(tier string) []variant
	// wall-clock safety net per child (inconclusive when it fires)
	TimeoutQ, TimeoutT time.Duration
	Technique          string
	Level              string // level_claimed.text
	Assumptions        []string
}

var props = map[string]*propCfg{}

func reg(p *propCfg) { props[p.ID] = p }

// withFuzz: the plain monitor, plus - in the thorough tier - coverage-guided native fuzzing of
// the same oracle (target, executions, monitor under which a failing input is filed).
func withFuzz(target string, execs int, monitor string) func(string) []variant {
	return func(tier string) []variant {
		vs := []variant{{Name: "main", Shards: 1}}
		if tier == "thorough" {
			vs = append(vs, variant{Name: "fuzz", Shards: 1, Fuzz: target, FuzzExecs: execs, Monitor: monitor})
		}
		return vs
	}
}

func simple(race bool) func(string) []variant {
	return func(string) []variant { return []variant{{Name: "main", Race: race, Shards: 1}} }
}

func main() {
	if len(os.Args) == 2 && os.Args[1] == "manifest" {
		writeManifest()
		return
	}
	if len(os.Args) < 3 {
		fmt.Fprintln(os.Stderr, "usage: verifcheck run <Cxx> [quick|thorough] | verifcheck replay <path>")
		os.Exit(2)
	}
	os.Setenv("GOFLAGS", "-mod=mod")
	os.Setenv("GOPROXY", "off")
	os.Setenv("GOSUMDB", "off")
	os.Setenv("GOTOOLCHAIN", "local")
	switch os.Args[1] {
	case "run":
		tier := envOr("VERIF_TIER", "quick")
		if len(os.Args) > 3 {
			tier = os.Args[3]
		}
		if tier != "thorough" {
			tier = "quick"
		}
		os.Exit(runProp(strings.ToUpper(os.Args[2]), tier, nil))
	case "replay":
		b, err := os.ReadFile(os.Args[2])
		if err != nil {
			fmt.Fprintln(os.Stderr, err)
			os.Exit(2)
		}
		var rf core.ReplayFile
		if err := json.Unmarshal(b, &rf); err != nil {
			fmt.Fprintln(os.Stderr, err)
			os.Exit(2)
		}
		abs, _ := filepath.Abs(os.Args[2])
		os.Exit(runProp(rf.Property, rf.Tier, &replayReq{path: abs, rf: rf}))
	default:
		fmt.Fprintln(os.Stderr, "unknown command", os.Args[1])
		os.Exit(2)
	}
}

var (
	childMu   sync.Mutex
	childPids = map[int]bool{}
)

type replayReq struct {
	path string
	rf   core.ReplayFile
}

func seed() uint64 {
	if s := os.Getenv("VERIF_SEED"); s != "" {
		if v, err := strconv.ParseUint(s, 10, 64); err == nil {
			return v
		}
		if v, err := strconv.ParseInt(s, 10, 64); err == nil {
			return uint64(v)
		}
	}
	return 1
}

type childResult struct {
	variant  variant
	bin      string
	shard    int
	outDir   string
	logPath  string
	exitCode int
	timedOut bool
	sum      *core.Summary
	wall     float64
}

type runCtx struct {
	p       *propCfg
	tier    string
	work    string
	timeout time.Duration
}

func runProp(id, tier string, rp *replayReq) int {
	start := time.Now()
	p := props[id]
	if p == nil {
		fmt.Fprintf(os.Stderr, "unknown property %q\n", id)
		return 2
	}
	work := filepath.Join(verifDir, ".build", fmt.Sprintf("%s-%d", id, os.Getpid()))
	os.RemoveAll(work)
	if err := os.MkdirAll(work, 0o755); err != nil {
		fmt.Fprintln(os.Stderr, err)
		return 2
	}
	var scratch []string
	cleanup := func() {
		for _, s := range scratch {
			os.RemoveAll(s)
		}
		if os.Getenv("VERIF_KEEP") == "" {
			for i := 0; i < 20; i++ { // dying children may still be writing
				os.RemoveAll(work)
				if _, err := os.Stat(work); os.IsNotExist(err) {
					break
				}
				time.Sleep(100 * time.Millisecond)
			}
		}
	}
	defer cleanup()
	// a terminated driver must not leave children or scratch copies behind
	sigc := make(chan os.Signal, 1)
	signal.Notify(sigc, syscall.SIGINT, syscall.SIGTERM, syscall.SIGHUP)
	go func() {
		<-sigc
		childMu.Lock()
		for pid := range childPids {
			syscall.Kill(-pid, syscall.SIGKILL)
		}
		childMu.Unlock()
		cleanup()
		os.Exit(130)
	}()

	vars := p.Variants(tier)
	if only := os.Getenv("VERIF_ONLY_VARIANT"); only != "" { // experiments: one variant in isolation
		var keep []variant
		for _, v := range vars {
			if v.Name == only {
				keep = append(keep, v)
			}
		}
		vars = keep
	}
	if rp != nil {
		for i := range vars {
			vars[i].Shards = 1
		}
	}

	// ---- build (variants in parallel)
	needShim := false
	for _, v := range vars {
		if v.Shim != "" {
			needShim = true
		}
	}
	if needShim {
		d, err := makeShimCopy(work)
		if d != "" {
			scratch = append(scratch, d)
		}
		if err != nil {
			fmt.Printf("BUILD-FAILED property=%s (shim copy): %v\n", id, err)
			return 2
		}
	}
	// VERIF_REPO=<dir> (used to run the checks against a seeded scratch worktree
	// without touching /repo): the non-shim builds get a modfile whose replace
	// directive points there.
	altMod := ""
	if repoDir != "/repo" {
		mod, err := os.ReadFile(filepath.Join(verifDir, "go.mod"))
		if err != nil {
			fmt.Printf("BUILD-FAILED property=%s: %v\n", id, err)
			return 2
		}
		re := regexp.MustCompile(`(?m)^replace github.com/esimov/gogu => .*$`)
		altMod = filepath.Join(work, "alt.mod")
		os.WriteFile(altMod, re.ReplaceAll(mod, []byte("replace github.com/esimov/gogu => "+repoDir)), 0o644)
		sum, _ := os.ReadFile(filepath.Join(verifDir, "go.sum"))
		os.WriteFile(filepath.Join(work, "alt.sum"), sum, 0o644)
	}
	type built struct {
		bin string
		err error
		out string
	}
	// variants with the same (race, shim) flags share one binary
	bkey := func(v variant) string {
		return fmt.Sprintf("race=%v-shim=%v-%s%s", v.Race, v.Shim != "", strings.NewReplacer("/", "_", ".", "").Replace(v.Pkg), v.Fuzz)
	}
	keyed := map[string]*built{}
	var wg sync.WaitGroup
	for _, v := range vars {
		k := bkey(v)
		if keyed[k] != nil {
			continue
		}
		b := &built{bin: filepath.Join(work, k+".test")}
		keyed[k] = b
		wg.Add(1)
		go func(v variant, b *built) {
			defer wg.Done()
			args := []string{"test", "-c", "-tags", "verif", "-o", b.bin}
			if v.Race {
				args = append(args, "-race")
			}
			if v.Fuzz != "" {
				args = append(args, "-fuzz=^"+v.Fuzz+"$")
			}
			if v.Shim != "" {
				args = append(args, "-modfile="+filepath.Join(work, "shim.mod"))
			} else if altMod != "" {
				args = append(args, "-modfile="+altMod)
			}
			if v.Pkg != "" {
				args = append(args, v.Pkg)
			} else {
				args = append(args, p.Pkg)
			}
			cmd := exec.Command(goTool, args...)
			cmd.Dir = verifDir
			out, err := cmd.CombinedOutput()
			b.err, b.out = err, string(out)
		}(v, b)
	}
	wg.Wait()
	builds := make([]built, len(vars))
	for i, v := range vars {
		builds[i] = *keyed[bkey(v)]
		if builds[i].err != nil {
			fmt.Printf("BUILD-FAILED property=%s variant=%s\n%s\n", id, v.Name, builds[i].out)
			return 2
		}
	}
	buildS := time.Since(start).Seconds()

	// ---- run children
	timeout := p.TimeoutQ
	if tier == "thorough" {
		timeout = p.TimeoutT
	}
	if timeout == 0 {
		timeout = 20 * time.Minute
		if tier == "thorough" {
			timeout = 120 * time.Minute
		}
	}
	ctx := &runCtx{p: p, tier: tier, work: work, timeout: timeout}
	var results []*childResult
	var rmu sync.Mutex
	total := 0
	for _, v := range vars {
		total += v.Shards
	}
	if total > 16 {
		total = 16
	}
	sem := make(chan struct{}, total)
	for i, v := range vars {
		for s := 0; s < v.Shards; s++ {
			wg.Add(1)
			go func(v variant, bin string, s int) {
				defer wg.Done()
				sem <- struct{}{}
				defer func() { <-sem }()
				only := ""
				if rp != nil {
					only = rp.path
				}
				r := ctx.runChild(v, bin, s, only, timeout)
				rmu.Lock()
				results = append(results, r)
				rmu.Unlock()
			}(v, builds[i].bin, s)
		}
	}
	wg.Wait()
	sort.Slice(results, func(i, j int) bool {
		if results[i].variant.Name != results[j].variant.Name {
			return results[i].variant.Name < results[j].variant.Name
		}
		return results[i].shard < results[j].shard
	})

	// ---- collect
	a := newAgg(id, tier)
	a.buildS = buildS
	for _, r := range results {
		a.addChild(r)
		if r.variant.Race {
			a.addRaces(r)
		}
		if r.sum == nil || !r.sum.Complete {
			a.handleIncomplete(ctx, r)
		}
	}
	return a.finish(p, start, rp)
}

func makeShimCopy(work string) (string, error) {
	d, err := os.MkdirTemp("/var/tmp", "verif-gogu-")
	if err != nil {
		return "", err
	}
	if out, err := exec.Command("rsync", "-a", "--exclude", ".git", repoDir+"/", d+"/").CombinedOutput(); err != nil {
		return d, fmt.Errorf("rsync: %v: %s", err, out)
	}
	n, err := shimrw.Rewrite(d, "github.com/esimov/gogu/vsync")
	if err != nil {
		return d, err
	}
	if n == 0 {
		return d, fmt.Errorf("no import of package sync was rewritten")
	}
	if out, err := exec.Command("rsync", "-a", filepath.Join(verifDir, "shim", "vsync")+"/", filepath.Join(d, "vsync")+"/").CombinedOutput(); err != nil {
		return d, fmt.Errorf("rsync shim: %v: %s", err, out)
	}
	mod, err := os.ReadFile(filepath.Join(verifDir, "go.mod"))
	if err != nil {
		return d, err
	}
	re := regexp.MustCompile(`(?m)^replace github.com/esimov/gogu => .*$`)
	mod2 := re.ReplaceAll(mod, []byte("replace github.com/esimov/gogu => "+d))
	if err := os.WriteFile(filepath.Join(work, "shim.mod"), mod2, 0o644); err != nil {
		return d, err
	}
	sum, _ := os.ReadFile(filepath.Join(verifDir, "go.sum"))
	os.WriteFile(filepath.Join(work, "shim.sum"), sum, 0o644)
	return d, nil
}

func (ctx *runCtx) runChild(v variant, bin string, shard int, only string, timeout time.Duration) *childResult {
	out := filepath.Join(ctx.work, fmt.Sprintf("%s-%d", v.Name, shard))
	if only != "" {
		out += fmt.Sprintf("-replay-%d", time.Now().UnixNano())
	}
	os.MkdirAll(out, 0o755)
	logPath := filepath.Join(out, "log.txt")
	lf, _ := os.Create(logPath)
	args := []string{"-test.timeout=0", "-test.count=1"}
	if v.Fuzz != "" && only == "" {
		args = append(args, "-test.run=^$", "-test.fuzz=^"+v.Fuzz+"$", fmt.Sprintf("-test.fuzztime=%dx", v.FuzzExecs),
			"-test.fuzzcachedir="+filepath.Join(out, "fuzzcache"))
	} else if v.Fuzz != "" {
		args = append(args, "-test.run=^TestProp$") // a replay goes through the ordinary monitor
	}
	if v.Run != "" {
		args = append(args, "-test.run="+v.Run)
	}
	if v.Verbose {
		args = append(args, "-test.v")
	}
	cmd := exec.Command(bin, args...)
	cmd.Dir = out
	cmd.Stdout = lf
	cmd.Stderr = lf
	cmd.Env = append(os.Environ(),
		"VERIF_TIER="+ctx.tier,
		fmt.Sprintf("VERIF_SEED=%d", seed()),
		"VERIF_OUT="+out,
		fmt.Sprintf("VERIF_SHARD=%d/%d", shard, v.Shards),
		"VERIF_SHIM_MODE="+v.Shim,
		"VERIF_VARIANT="+v.Name,
		"GOTRACEBACK=all",
		"VERIF_KNOWN_SIGS="+knownSigsEnv(ctx.p.ID),
	)
	if v.Race {
		cmd.Env = append(cmd.Env, "GORACE=halt_on_error=0")
	}
	if len(v.Procs) > 0 {
		cmd.Env = append(cmd.Env, fmt.Sprintf("GOMAXPROCS=%d", v.Procs[shard%len(v.Procs)]))
	}
	if only != "" {
		cmd.Env = append(cmd.Env, "VERIF_ONLY="+only)
	}
	cmd.Env = append(cmd.Env, v.Env...)
	cmd.SysProcAttr = &syscall.SysProcAttr{Setpgid: true}
	r := &childResult{variant: v, bin: bin, shard: shard, outDir: out, logPath: logPath}
	t0 := time.Now()
	if err := cmd.Start(); err != nil {
		fmt.Fprintf(lf, "start: %v\n", err)
		lf.Close()
		r.exitCode = 127
		return r
	}
	childMu.Lock()
	childPids[cmd.Process.Pid] = true
	childMu.Unlock()
	defer func() {
		childMu.Lock()
		delete(childPids, cmd.Process.Pid)
		childMu.Unlock()
	}()
	done := make(chan error, 1)
	go func() { done <- cmd.Wait() }()
	select {
	case err := <-done:
		if err != nil {
			if ee, ok := err.(*exec.ExitError); ok {
				r.exitCode = ee.ExitCode()
			} else {
				r.exitCode = 126
			}
		}
	case <-time.After(timeout):
		r.timedOut = true
		syscall.Kill(-cmd.Process.Pid, syscall.SIGQUIT)
		select {
		case <-done:
		case <-time.After(10 * time.Second):
			syscall.Kill(-cmd.Process.Pid, syscall.SIGKILL)
			<-done
		}
		r.exitCode = 124
	}
	lf.Close()
	r.wall = time.Since(t0).Seconds()
	if b, err := os.ReadFile(filepath.Join(out, "summary.json")); err == nil {
		var s core.Summary
		if json.Unmarshal(b, &s) == nil {
			r.sum = &s
		}
	}
	if v.Fuzz != "" && only == "" {
		r.sum = fuzzSummary(ctx.p.ID, v, logPath, r.exitCode, r.timedOut)
	}
	return r
}

var (
	reFuzzProgress = regexp.MustCompile(`execs: (\d+) .*new interesting: \d+ \(total: (\d+)\)`)
	reFuzzSig      = regexp.MustCompile(`VERIF-SIG (\S+)`)
	reFuzzCase     = regexp.MustCompile(`VERIF-CASE (\{.*\})`)
)

// fuzzSummary turns the log of a native fuzzing child into a summary: executions and corpus size
// from the engine's progress lines; a failing input (the target prints VERIF-SIG / VERIF-CASE) becomes
// a violation record of the variant's monitor. Any other abnormal end stays incomplete (inconclusive).
func fuzzSummary(prop string, v variant, logPath string, exit int, timedOut bool) *core.Summary {
	b, _ := os.ReadFile(logPath)
	log := string(b)
	s := &core.Summary{Property: prop, Counters: map[string]int64{}, Monitors: map[string]core.MonitorStat{}, Extra: map[string]any{}, Exhaustive: map[string]int64{}}
	var execs, corpus int64
	for _, m := range reFuzzProgress.FindAllStringSubmatch(log, -1) {
		fmt.Sscan(m[1], &execs)
		fmt.Sscan(m[2], &corpus)
	}
	name := "fuzz:" + v.Fuzz
	ms := core.MonitorStat{Evaluations: execs, Distinct: corpus}
	s.Rules = []string{name + ": coverage-guided native Go fuzzing of the same oracle, bounded by an execution count; evaluations = executions, distinct = inputs that reached new coverage (the engine's corpus)"}
	if sig := reFuzzSig.FindStringSubmatch(log); sig != nil {
		rec := core.ViolationRec{Property: prop, Monitor: v.Monitor, Sig: sig[1], Count: 1, Detail: "found by " + name + "\n" + tailOf(logPath, 2500)}
		if c := reFuzzCase.FindStringSubmatch(log); c != nil && json.Valid([]byte(c[1])) {
			rec.Case = json.RawMessage(c[1])
		}
		s.Violations = append(s.Violations, rec)
		ms.Violations = 1
		s.Complete = true
	} else if exit == 0 && !timedOut && strings.Contains(log, "PASS") {
		s.Complete = true
	}
	s.Monitors[name] = ms
	s.Evaluations, s.Distinct = execs, corpus
	s.Counters["fuzz_executions"] = execs
	return s
}
