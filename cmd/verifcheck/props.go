package main

func init() {
	reg(&propCfg{ID: "C04", Pkg: "./props/c04", Variants: simple(false),
		Technique:   "reference-model trace monitor (map model) over systematic small-scope sweep + seeded random sequences",
		Assumptions: []string{"the map model and the generators are trusted", "single goroutine; concurrency is C01/C02"}})
}
