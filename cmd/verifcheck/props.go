package main

import "fmt"

func c01Variants(tier string) []variant {
	vs := []variant{
		{Name: "race-jitter", Race: true, Shim: "jitter", Verbose: true, Shards: 9},
		{Name: "tracked", Shim: "tracked", Verbose: false, Shards: 9},
	}
	if tier == "thorough" {
		for _, p := range []int{4, 2, 1} {
			vs = append(vs, variant{Name: fmt.Sprintf("race-jitter-p%d", p), Race: true, Shim: "jitter", Verbose: true, Shards: 9, Env: []string{fmt.Sprintf("GOMAXPROCS=%d", p)}})
		}
		vs = append(vs, variant{Name: "tracked-p2", Shim: "tracked", Shards: 9, Env: []string{"GOMAXPROCS=2"}})
	}
	return vs
}

// raceAndPlain is the thorough tier of the virtual-time checks C17 and C20. The race runtime keeps
// a few KB for every goroutine ever started (measured: 300 000 empty synctest bubbles = 1.9 GB
// resident under -race, 10 MB without; the first thorough run of C20 reached 18 GB per child and
// ended inconclusive), so the millions of cases of the thorough bounds run in a plain build and
// the race build repeats the quick-size workload four times with GOMAXPROCS 16/4/2/1.
func raceAndPlain() []variant {
	return []variant{
		{Name: "race", Race: true, Shards: 4, Procs: []int{16, 4, 2, 1}, Env: []string{"VERIF_BOUNDS=quick"}},
		{Name: "plain", Shards: 2, Procs: []int{16, 3}},
	}
}

func init() {
	reg(&propCfg{ID: "C02", Pkg: "./props/c02", Variants: func(tier string) []variant {
		vs := []variant{{Name: "tracked", Shim: "tracked", Run: "^TestProp$", Shards: 16, Env: []string{"GOMAXPROCS=4"}},
			{Name: "conservation", Shim: "tracked", Run: "^TestConservation$", Shards: 4, Env: []string{"GOMAXPROCS=6"}}}
		if tier == "thorough" {
			vs = append(vs, variant{Name: "tracked-p2", Shim: "tracked", Run: "^TestProp$", Shards: 16, Env: []string{"GOMAXPROCS=2"}})
		}
		return vs
	},
		Level:       "held on every recorded history: every program of 2 threads x <=2 calls and 3 threads x 1 call over each of the 8 types' single-element operations (the cache both with live entries only and starting from expired-but-unpurged entries) with a 2-value (thorough 3-value) alphabet and 3 small initial states, each executed 16 (thorough 48, and again with GOMAXPROCS=2) times under seeded delays at lock boundaries (readers are refused while a writer is pending, as sync.RWMutex does, so a recursive read lock ends in the logical deadlock verdict), plus seeded larger programs, plus deep tables (a BsTree whose root has two children; Queue and Stack - thorough: also LQueue, LStack, Heap - holding 300 elements with membership probes at positions 0/63/64/127/128/129/255/256/299; BsTreeDeep also with Traverse as an operation); every history (with a sequential observation suffix) checked by porcupine against the implementation replayed sequentially; plus a conservation monitor: 64 (thorough 640) long concurrent runs with unique values on Stack/Queue/LQueue/Heap grown to 600-6000 elements and drained 3-8 times under the same seeded delays, checked offline (nothing foreign, nothing twice, put = taken + final drain)",
		Technique:   "client-boundary history recorder + porcupine linearizability checker with the sequentially replayed implementation as specification, executions under the tracked sync shim (seeded delays between critical sections); offline conservation checker over long unique-value runs",
		Assumptions: []string{"interleavings are those the runtime + seeded delays produce (measured: distinct lock-acquisition orders are reported); not exhaustive, a split section that no run opens is missed", "relies on C01 for races inside one lock acquisition (no delay is injected there)", "the sequential behaviour itself is judged by C03-C09, not here", "porcupine v1.3.0 is trusted"}})
	reg(&propCfg{ID: "C01", Pkg: "./props/c01", Variants: c01Variants,
		Level:       "held on every executed scenario: every unordered pair (incl. self-pairs) of public methods of each of the 8 lock-guarded types (cache with and without the cleanup goroutine) x initial states {0,1,3 elements} x randomised start order x 20 (thorough 200) repetitions under the race detector with yields injected at every lock boundary, the same scenarios x 40 (300) under the tracked shim (deadlock verdict, leaked lock, usability afterwards, panic filter), long random mixes; heaps additionally with a second shared heap in both roles (a.Meld(b) against b.Meld(a)); thorough adds triples and GOMAXPROCS in {16,4,2,1}",
		Technique:   "Go race detector over a pairwise method-scenario table with injected delays at lock boundaries (sync shim) + tracked-lock shim deciding deadlock/leaked-lock/usability",
		Assumptions: []string{"the scratch copy differs from /repo only by the redirected sync import (regenerated from the working tree on every run)", "race reports are schedule-insensitive once both accesses execute in one scenario; panics and deadlocks depend on the interleavings the runtime + jitter produce", "not asserted: re-entrancy (a Traverse callback calling back into the tree); btree, list, LRUCache (not thread-safe by contract)"}})
	reg(&propCfg{ID: "C03", Pkg: "./props/c03", Variants: simple(false),
		Level:       "held on every executed case: complete sweep of all operation sequences up to length 6 (thorough 7) over push(4 values incl. a comparator tie)/pop/clear/convert/delete under both comparators, FromSlice and Sort on all slices up to length 6 (8), plus seeded random long sequences with Merge/Meld and variadic pushes of up to 80 values, bulk cases of 255-3000 elements (Push or FromSlice, drain, refill, Convert, drain); every Pop/Peek checked for extremality with the comparator itself and the held multiset compared after every step",
		Technique:   "reference-model trace monitor (multiset model + comparator as order oracle) over systematic small-scope sweep + seeded random sequences",
		Assumptions: []string{"the multiset model and the generators are trusted", "comparators are strict orders on the key field", "single goroutine; concurrency is C01/C02"}})
	reg(&propCfg{ID: "C05", Pkg: "./props/c05", Variants: simple(false),
		Level:       "held on every executed case: complete sweep of all sequences up to length 7 (thorough 9) over enqueue(3 values)/dequeue/clear/observe for both queue implementations plus seeded random sequences with fill/drain/clear/churn phases and bulk cases holding 300-3000 unique elements (drained to empty, beyond, almost, partly; refilled) and queues of pointers (identity, not look-alike equality); every Dequeue result and Size/Peek/Search compared with a slice model, final drain and Dequeue-on-empty",
		Technique:   "reference-model trace monitor (FIFO slice model) over systematic small-scope sweep + seeded random sequences",
		Assumptions: []string{"the slice model and the generators are trusted", "the linked queue reports emptiness by returning the zero value (values enqueued in the sweep are non-zero)", "single goroutine; concurrency is C01/C02"}})
	reg(&propCfg{ID: "C06", Pkg: "./props/c06", Variants: simple(false),
		Level:       "held on every executed case: complete sweep of all sequences up to length 8 (thorough 10) over push(3 values)/pop/observe for both stack implementations plus seeded random sequences that repeatedly empty and refill and bulk cases holding 300-3000 unique elements (popped to empty, beyond, almost, partly; refilled) and stacks of pointers / pointer-holding structs; every Pop result and Size/Peek/Search compared with a slice model, drain with Peek before each Pop, Pop-on-empty",
		Technique:   "reference-model trace monitor (LIFO slice model) over systematic small-scope sweep + seeded random sequences",
		Assumptions: []string{"the slice model and the generators are trusted", "single goroutine; concurrency is C01/C02"}})
	reg(&propCfg{ID: "C07", Pkg: "./props/c07", Variants: simple(false),
		Level:       "held on every executed case: complete sweep of all sequences up to length 5 (thorough 6) of the eight operations over 3 keys for capacities 1..3 and up to length 4 (5) over 5 keys for capacities 3..4, plus seeded random long sequences with capacities up to 16 (every 400th: 64-1000 entries, thousands of operations); every return value compared with a recency-list model, Count/GetYoungest after every step, final drain by RemoveOldest",
		Technique:   "reference-model trace monitor (recency-list model) over systematic small-scope sweep + seeded random sequences",
		Assumptions: []string{"the recency-list model (refresh on Add, Get, GetOldest only) and the generators are trusted", "LRUCache is single-threaded by contract"}})
	reg(&propCfg{ID: "C09", Pkg: "./props/c09", Variants: simple(false),
		Level:       "held on every executed case: complete sweep of all Put sequences of up to 5 keys of length 1..3 over {a,b} (and 4 keys of length 1..2 over {a,b,c}; thorough: 6 keys, key length 4, 3 letters) probed with every string of length <= 4 for Get/Contains/LongestPrefix/StartsWith plus Keys (also with the previous listing left partly unread in the shared result queue), and seeded random key sets with shared prefixes, nested keys and bytes 0x00/>=0x80 (every 250th: 150-700 keys)",
		Technique:   "reference-model trace monitor (map + sorted key list) over systematic small-scope sweep + seeded random key sets",
		Assumptions: []string{"the map model and the generators are trusted", "the trie is backed by queue.Queue as in the package's own example", "Put with an empty key is outside the property's domain and not exercised", "single goroutine; concurrency is C01/C02"}})
	reg(&propCfg{ID: "C10", Pkg: "./props/c10", Variants: simple(false),
		Level:       "held on every executed case: complete sweep of all Put/Remove sequences up to length 6 (thorough 7) over keys 0..5, seeded random sequences over up to 100 keys and sorted/reversed/random bulk loads of 200-2000 (thorough 50000) keys with interleaved removes and re-puts, sorted/reversed loads of 20 000+ keys and mass removal (all or most keys removed again, Size after every Remove), 20000 (400000) insertion orders of 4-200 keys built from ascending/descending runs over shuffled key blocks, alternating runs, zigzag and middle-out orders; the height bound after every single step, the key just written or removed read back before any other lookup, observation every 1st/2nd/5th/11th step, Size/IsEmpty/Get of every probe key/Traverse compared with a map model",
		Technique:   "reference-model trace monitor (map model + logarithmic height bound) over systematic small-scope sweep + seeded random and bulk sequences",
		Assumptions: []string{"the map model and the generators are trusted", "the slot-file announcement is truncated for bulk cases (they are re-generated from the seed, not re-executed from the slot)", "BTree is single-threaded by contract"}})
	reg(&propCfg{ID: "C19", Pkg: "./props/c19", Variants: simple(false),
		Level:       "held on every executed case: complete sweep of all edit sequences up to length 5 (thorough 6) over 14 (SList) / 17 (DList) operations with positional targets first/middle/last/absent plus seeded random sequences up to length 30 (every 500th: 120-300 growth-biased edits), all sequences up to length 5 (6) on lists holding duplicate values (Replace = first occurrence), lists of 70 001 and 140 000 nodes; the Each sequence, First/Last, Find of every value, error results, absence of panics and cycles checked against a slice model after every step",
		Technique:   "reference-model trace monitor (slice model, logical cycle bound inside the Each callback) over systematic small-scope sweep + seeded random sequences",
		Assumptions: []string{"the slice model and the generators are trusted", "values are distinct and handles come from Find immediately before use (stale handles, duplicates and Delete(nil) are outside the property)", "Shift/Pop on a one-element list may leave it unchanged or zero its value (the model adopts what it sees)"}})
	reg(&propCfg{ID: "C11", Pkg: "./props/c11", Variants: simple(false),
		Level:       "held on every executed case: complete enumeration of all slices up to length 5 (thorough 6) over {0,1,2}, all pairs (<=4, <=3) and triples (<=3) for the multi-argument functions, four key functions incl. a non-idempotent one, a bounded family of Union nestings up to depth 3 incl. malformed ones, plus seeded random inputs over int/string/float64 incl. large ones (18-600 distinct values, each repeated later; 2-3 values repeated hundreds of times), Union also with all typed leaves being windows of one backing array; results compared with independent quadratic references",
		Technique:   "differential monitor against independent quadratic references + defining-property checkers",
		Assumptions: []string{"the reference implementations are trusted", "IntersectionBy/DifferenceBy duplicate handling is read leniently (see DESIGN C11 'Not asserted')", "Intersection with zero arguments is outside the domain"}})
	reg(&propCfg{ID: "C12", Pkg: "./props/c12", Variants: simple(false),
		Level:       "held on every executed case: complete enumeration of all slices up to length 7 (thorough 9) over {0,1,2} x chunk sizes 1..8 x drop counts -9..9 x six predicates x three group keys, all square matrices up to 3x3 over 2 values, a bounded family of nestings up to depth 3, all strings of <=4 runes over a 5-rune alphabet, plus seeded random larger inputs; Merge on overlapping windows of one backing array, a second walk over the same slice after every visitor, Filter then Reject of the same slice, Chunk/Drop counts at the int limits, Flatten with equal sub-slices being one shared object, inputs of up to 2500 elements; checked against reference implementations, identities and callback logs",
		Technique:   "differential monitor against reference implementations + round-trip identities + logging callbacks",
		Assumptions: []string{"the references are trusted", "Chunk with size <= 0 and Zip/Unzip on non-square input panic by documentation and are not judged", "Shuffle is only required to return a permutation"}})
	reg(&propCfg{ID: "C13", Pkg: "./props/c13", Variants: simple(false),
		Level:       "held on every executed case: complete enumeration of all slices up to length 5 (thorough 6) over 3 values x probes/predicates/key functions/index windows, ALL int8 triples for Clamp/InRange and all int8 for Abs, all 1-/2-/3-argument Range forms in [-10,10] (thorough [-14,14]) plus quarter-step floats, all map slices up to length 5 for the ByKey variants, Nth at the extreme int values, Sum/SumBy/Mean on int8..uint64/float32 against accumulation in the element type, Compare with by-key comparators, Range over uint64 (upper half)/uint32/uint8/int8/int64 and with float steps finer than two decimals, Equal/IndexOf/Contains on floats one ulp apart, slices of up to 3000 elements, plus seeded random inputs; checked against the definitions",
		Technique:   "definitional checkers (differential against direct definitions) over complete small-scope enumeration + seeded random inputs; hangs/blow-ups by watchdog + isolated re-execution",
		Assumptions: []string{"the definitions as coded in the checker are trusted", "not asserted: Mean of an empty slice, Clamp with min > max, unsigned/overflowing Range arguments, Range() with no argument", "FindMin/MaxByKey when some map lacks the key: an error or the extremum over the maps that have it"}})
	reg(&propCfg{ID: "C14", Pkg: "./props/c14", Variants: simple(false),
		Level:       "held on every executed case: complete enumeration of all maps with up to 3 (thorough 4) entries over 4 keys (incl. the zero key, the empty string) x 3 values x five value predicates x all key lists up to length 3, all collections of up to 3 (4) maps from a pool of 8, plus seeded random larger maps; float64-keyed maps holding NaN keys for FilterMap/PickBy/MapValues/Keys/Values/MapSome/MapEvery; each case executed 4 times on freshly built maps; results compared with references as sets/maps or by their defining property",
		Technique:   "differential monitor + defining-property checkers, each case repeated to sample map iteration orders",
		Assumptions: []string{"the references are trusted", "Go's per-range random iteration start is the source of iteration-order diversity (4 executions per case)", "Pick with an empty key list returns an error by documentation (only its empty result is checked)"}})
	reg(&propCfg{ID: "C15", Pkg: "./props/c15", Variants: func(tier string) []variant {
		vs := []variant{{Name: "main", Shards: 1}}
		if tier == "thorough" { // plus coverage-guided fuzzing of the same oracle, bounded by executions
			vs = append(vs, variant{Name: "fuzz", Shards: 1, Fuzz: "FuzzHelpers", FuzzExecs: 3000000, Monitor: "str-random"})
		}
		return vs
	},
		Level:       "held on every executed case: complete enumeration of all strings of up to 4 (thorough 5) symbols over {a,B,é,',*,space} x offsets/lengths/indices/sizes in len±3 x 7 tokens, all strings up to length 6 (7) over the token characters for Unwrap, all 1-3 word phrases over an 8-word vocabulary x 8 separator runs for the case styles, offsets/lengths/indices at the int limits, fields padded to 4-70 KB with tokens of 1-7 bytes, plus seeded random longer inputs (up to 600 symbols) incl. multi-byte runes and NUL; compared with byte-level references and round-trip identities; thorough tier: additionally 3 000 000 executions of coverage-guided native Go fuzzing over (function, string, token, two ints) against the same oracle",
		Technique:   "differential monitor against byte-level references + round-trip identities; coverage-guided fuzzing of the same oracle in the thorough tier",
		Assumptions: []string{"the references are trusted (Substr: out-of-range selection = empty string, as the property restates the PHP rule)", "not asserted: Pad* with an empty token, case mapping/WrapAllRune on invalid UTF-8, the case styles outside ASCII alphanumeric words joined by runs of ' -_&'"}})
	reg(&propCfg{ID: "C16", Pkg: "./props/c16", Variants: simple(false),
		Level:       "held on every executed case: every adapter (one per exported slice/map helper, cross-checked against the package's exported functions) x 200 (thorough 2000) generated argument tuples x spare capacity {0,1,8}, and every ordered pair of non-in-place adapters sharing the first argument x 20 (200) tuples; arguments compared with shadow copies incl. sentinel-filled capacity regions, the slice-of-slices behind spread variadic parameters and []map collections tracked slot by slot, earlier results re-read after later calls, also after later IN-PLACE calls on the same argument for every helper that does not return a view, callbacks that re-check the arguments from inside every invocation and callbacks that panic mid-call, the parts of composite results (Zip/Unzip rows, Partition halves, GroupBy groups) probed for shared capacity, spread key lists of Omit/Pick, the function made by Flip called twice",
		Technique:   "shadow-copy monitor with capacity-region sentinels; result re-read after later calls",
		Assumptions: []string{"helpers whose arguments are strings/scalars only cannot disturb them (Go strings are immutable) and are listed, not executed", "views (Drop, Chunk; the map-collection filters return the argument's maps) may alias their argument; only writes are judged", "the documented in-place helpers are Reverse, Reject, Omit, OmitBy, heap.FromSlice, heap.Sort"}})
	reg(&propCfg{ID: "C18", Pkg: "./props/c18", Variants: simple(false),
		Level:       "held on every executed case: complete enumeration of n in -2..8 x 0..12 calls x counter types for After/Before, 0..12 calls x first result {10, 0, -1, 1} for Once with int, bool and string results (the zero value must be cached like any other), Once on expiring caches in virtual time (one run per lifetime of the memo, with and without a cleanup goroutine), n in -2..8 x all 511 success/failure patterns up to length 8 for Retry and RetryWithDelay (the latter inside testing/synctest bubbles: the wait between the end of one attempt and the start of the next is an exact virtual-time difference, also when the attempts themselves take time shorter than, equal to or longer than the delay)",
		Technique:   "counting-callback monitor over complete enumeration; virtual time (testing/synctest) for the delay clause",
		Assumptions: []string{"the fake clock of testing/synctest is trusted as the time source the library reads", "not asserted: Retry's error value for n <= 0; counter wrap-around of narrow integer types after > 127 calls"}})
	reg(&propCfg{ID: "C08", Pkg: "./props/c08", Variants: func(tier string) []variant {
		// the sequential virtual-time monitor + the concurrent half (lives in props/c02: it shares
		// the history recorder and porcupine glue) on a scratch copy with the tracked sync shim
		vs := []variant{{Name: "main", Shards: 1},
			{Name: "cleanup-concurrent", Shim: "tracked", Pkg: "./props/c02", Run: "^TestCacheCleanup$", Shards: 8, Env: []string{"GOMAXPROCS=4"}}}
		if tier == "thorough" {
			vs = append(vs, variant{Name: "cleanup-concurrent-p2", Shim: "tracked", Pkg: "./props/c02", Run: "^TestCacheCleanup$", Shards: 8, Env: []string{"GOMAXPROCS=2"}})
		}
		return vs
	},
		Level:       "held on every executed case: complete sweep of all sequences up to length 4 (thorough 5) over 23 operations (incl. clock advances to 1 ns before/after the earliest pending deadline) on 2 keys for all six default-expiry x cleanup configurations, plus seeded random sequences up to length 25 on 3 keys; every observable (Get, IsExpired, Count, List) compared after every step with a map-with-deadlines model at the same virtual instant, cleanup ticks included; concurrent half: every program of 2 threads x <=2 calls and 3 threads x 1 call over Set/Get/Update/Delete/Count/DeleteExpired/IsExpired (quick: those containing DeleteExpired or IsExpired) on a cache that starts with expired-but-unpurged entries, 8 (thorough 48) executions each under seeded delays at lock boundaries, every history checked with porcupine against the sequentially replayed implementation (a purge must never remove an entry a racing Set/Update has just made live); plus bulk cases of 200-3000 entries expiring together (purged by DeleteExpired or by the cleanup goroutine: Count, List and every Get exact)",
		Technique:   "reference-model trace monitor in virtual time (testing/synctest): observations at exact instants around deadlines and cleanup ticks; concurrent purge/expiry histories checked with porcupine under the tracked sync shim",
		Assumptions: []string{"the fake clock of testing/synctest is the time source the library reads (time.Now/Ticker)", "hook: cache.VerifStopCleanup (tag verif) ends the cleanup goroutine at the end of each case", "not asserted: whether Count/List include expired-but-unpurged entries, Delete's result on such an entry, behaviour exactly at a deadline", "concurrent half: expired entries are created in the sequential initial state with a 1 ns lifetime and the call returns only after the wall clock passed it; entries stored by the concurrent calls never expire, so no recorded result depends on when a call ran; interleavings are those the runtime + seeded delays produce"}})
	reg(&propCfg{ID: "C17", Pkg: "./props/c17", Variants: func(tier string) []variant {
		if tier == "thorough" {
			return raceAndPlain()
		}
		return []variant{{Name: "race", Race: true, Shards: 1}}
	},
		Level:       "held on every executed case: callers {1,2,4,8,16} x keys {1,2,3} x latency {0,10ms,1s} x outcome {value,error,error-then-value,item+error,item+error-then-value} x expiry {never,25ms} x 4 start patterns x 12 repetitions inside testing/synctest bubbles under the race detector (thorough: 4 race-build children with GOMAXPROCS 16/4/2/1 at these bounds, plus 120 repetitions in a plain build), plus every sequential call/advance pattern up to length 5 (6) against an exact model, plus Memoizer[string,any] with nil/0/string/typed-nil results; in-flight counter and virtual-time execution log inside the supplied function",
		Technique:   "in-callback monitor (in-flight counter + execution log) and caller-side log in virtual time (testing/synctest), race detector on",
		Assumptions: []string{"schedules are those the Go runtime produces inside the bubble (repetitions, GOMAXPROCS varied in the thorough tier); not exhaustive", "not asserted: that a caller which began before the value was cached does not recompute (lookup-then-singleflight window)", "cache.Items are minted through a separate cache because Item has no exported constructor"}})
	reg(&propCfg{ID: "C20", Pkg: "./props/c20", Variants: func(tier string) []variant {
		if tier == "thorough" {
			return raceAndPlain()
		}
		return []variant{{Name: "race", Race: true, Shards: 1}}
	},
		Level:       "held on every executed case: Delay with Stop at instants around the delay; all debounce scripts up to length 4 (thorough 5) over call/burst/cancel x 4 gaps x 2 waits plus random bursts of 1..50 calls; all throttle scripts up to length 4 (5) over Call/burst x 4 gaps x 7 consumer arrangements x trailing on/off x period 5ms (thorough: also 50ms) plus random scripts, debounced functions that themselves take 0.6/1.7 waits, Calls and Next after Cancel, Cancel fired while 2-8 consumers are entering Next (40000 / 600000 trials); executed in testing/synctest bubbles under the race detector with exact virtual timestamps (thorough: the larger bounds run in a plain build, the race build repeats the quick bounds with GOMAXPROCS 16/4/2/1); plus the throttle on the REAL clock under a storm of triggers with permissions taken in pairs bracketed by monotonic clock readings (bracket < period = violation, one-sided and load-proof; 7 (thorough 72) runs of 1.2 (5) s)",
		Technique:   "timestamping callbacks + consumer log in virtual time (testing/synctest), race detector on; one-sided bracketing of permission pairs on the real clock under a trigger storm",
		Assumptions: []string{"the fake clock of testing/synctest is the time source the library reads (time.AfterFunc/Since/Now)", "nothing is asserted at exact equality (gap == wait, delta == period): scripts avoid it", "schedules are those the Go runtime produces inside the bubble; thorough tier repeats with varied GOMAXPROCS", "throttle liveness is asserted only for the trailing configuration (as the property states)", "the real-clock monitor can only catch what the real timers and the scheduler make happen within its run time (a window of a few microseconds around a late timer callback was hit in about 4 of 5 quick runs on the loaded machine); its verdict never depends on the load"}})
	reg(&propCfg{ID: "C04", Pkg: "./props/c04", Variants: simple(false),
		Level:       "held on every executed case: complete sweep of all Upsert/Delete sequences up to length 6 (thorough 7; one less for the descending comparator) over keys 0..4 plus seeded random sequences over up to 64 keys (sorted, reversed, random and churn insertion orders, look-ups around deleted two-child nodes, re-inserts); every Delete/Get result compared with a map model and Size, Get of every probe key and the complete Traverse sequence (each key once, current value, comparator order) after the last step (sweep) or every step (random), the key just written is read back before any other lookup; bulk cases of 129-5000 keys (sorted/reversed/shuffled loads, three rounds of deleting a fifth and re-inserting) with the complete Traverse sequence checked twice after every phase; a quarter of the cases under a comparator that orders keys by k/3 only (distinct keys equivalent)",
		Technique:   "reference-model trace monitor (map model) over systematic small-scope sweep + seeded random sequences",
		Assumptions: []string{"the map model and the generators are trusted", "single goroutine; concurrency is C01/C02"}})
}
