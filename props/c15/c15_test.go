// C15 — string helpers cut, pad, wrap and re-case without losing or inventing
// text (DESIGN §4 C15). Oracle: byte-level references + round-trip identities.
package c15

import (
	"math"
	"fmt"
	"strings"
	"testing"
	"unicode"
	"unicode/utf8"

	"github.com/esimov/gogu"

	"verif/internal/core"
	"verif/internal/seq"
)

type Case struct {
	Fn  string `json:"fn"`
	S   string `json:"s_hex"`
	Tok string `json:"tok_hex,omitempty"`
	A   int    `json:"a,omitempty"`
	B   int    `json:"b,omitempty"`
}

func hx(s string) string { return fmt.Sprintf("%x", s) }
func unhx(h string) string {
	var b []byte
	fmt.Sscanf(h, "%x", &b)
	return string(b)
}

func refSubstr(s string, off, length int) string {
	n := len(s)
	st := off
	if off < 0 {
		st = n + off
	}
	if st < 0 || st > n {
		return ""
	}
	var en int
	if length < 0 {
		en = n + length
		if en < st {
			return ""
		}
	} else {
		en = n // length >= n-st, incl. lengths for which st+length is not representable
		if length < n-st {
			en = st + length
		}
	}
	return s[st:en]
}

func padding(tok string, n int) string {
	if n <= 0 {
		return ""
	}
	return strings.Repeat(tok, n/len(tok)+1)[:n]
}

func alnumLower(s string) string {
	var b strings.Builder
	for _, r := range s {
		if r < 128 && (unicode.IsLetter(r) || unicode.IsDigit(r)) {
			b.WriteRune(unicode.ToLower(r))
		}
	}
	return b.String()
}

func run(w *core.Worker, c Case) {
	fail := func(sig, format string, a ...any) { w.Violation("c15."+c.Fn+"."+sig, fmt.Sprintf(format, a...)) }
	s, tok := unhx(c.S), unhx(c.Tok)
	nontrivial := len(s) >= 2
	p := core.Catch(func() {
		switch c.Fn {
		case "Substr":
			got := gogu.Substr(s, c.A, c.B)
			if want := refSubstr(s, c.A, c.B); got != want {
				fail("result", "Substr(%q,%d,%d)=%q want %q", s, c.A, c.B, got, want)
			}
		case "SplitAtIndex":
			got := gogu.SplitAtIndex(s, c.A)
			if len(got) != 2 {
				fail("not-two-parts", "SplitAtIndex(%q,%d)=%q", s, c.A, got)
			} else if got[0]+got[1] != s {
				fail("concat", "SplitAtIndex(%q,%d)=%q does not concatenate to the input", s, c.A, got)
			}
		case "Pad":
			size := c.A
			for _, f := range []string{"PadLeft", "PadRight", "Pad"} {
				var got, want string
				miss := size - len(s)
				switch f {
				case "PadLeft":
					got = gogu.PadLeft(s, size, tok)
					want = padding(tok, miss) + s
				case "PadRight":
					got = gogu.PadRight(s, size, tok)
					want = s + padding(tok, miss)
				case "Pad":
					got = gogu.Pad(s, size, tok)
					want = padding(tok, miss/2) + s + padding(tok, miss-miss/2)
				}
				if miss <= 0 {
					want = s
				}
				if got != want {
					sig := f
					if miss > 0 && len(got) != size {
						sig = f + "-length"
					}
					fail(sig, "%s(%q,%d,%q)=%q want %q", f, s, size, tok, got, want)
				}
			}
			nontrivial = size > len(s)
		case "Wrap":
			wr := gogu.Wrap(s, tok)
			if wr != tok+s+tok {
				fail("Wrap", "Wrap(%q,%q)=%q", s, tok, wr)
				return
			}
			if back := gogu.Unwrap(wr, tok); back != s {
				fail("roundtrip", "Unwrap(Wrap(%q,%q),%q)=%q", s, tok, tok, back)
			}
			nontrivial = true
		case "Unwrap":
			got := gogu.Unwrap(s, tok)
			want := s
			if len(tok) > 0 && len(s) >= 2*len(tok) && strings.HasPrefix(s, tok) && strings.HasSuffix(s, tok) {
				want = s[len(tok) : len(s)-len(tok)]
			}
			if got != want {
				sig := "result"
				if want == s {
					sig = "changed-unwrapped-string"
				}
				fail(sig, "Unwrap(%q,%q)=%q want %q", s, tok, got, want)
			}
			nontrivial = want != s
		case "WrapAllRune":
			got := gogu.WrapAllRune(s, tok)
			var b strings.Builder
			for _, r := range s {
				b.WriteString(tok)
				b.WriteRune(r)
				b.WriteString(tok)
			}
			if got != b.String() {
				fail("result", "WrapAllRune(%q,%q)=%q want %q", s, tok, got, b.String())
			}
		case "Case":
			if !utf8.ValidString(s) {
				return
			}
			// ReverseStr reverses runes (valid UTF-8 only) and undoes itself
			{
				rs := []rune(s)
				for i, j := 0, len(rs)-1; i < j; i, j = i+1, j-1 {
					rs[i], rs[j] = rs[j], rs[i]
				}
				if got := gogu.ReverseStr(s); got != string(rs) {
					fail("ReverseStr", "ReverseStr(%q)=%q want %q", s, got, string(rs))
				} else if back := gogu.ReverseStr(got); back != s {
					fail("ReverseStr-involution", "ReverseStr(ReverseStr(%q))=%q", s, back)
				}
			}
			lo, up := strings.Map(unicode.ToLower, s), strings.Map(unicode.ToUpper, s)
			if got := gogu.ToLower(s); got != lo {
				fail("ToLower", "ToLower(%q)=%q want %q", s, got, lo)
			}
			if got := gogu.ToUpper(s); got != up {
				fail("ToUpper", "ToUpper(%q)=%q want %q", s, got, up)
			}
			var b strings.Builder
			for i, r := range s {
				if i == 0 {
					b.WriteRune(unicode.ToUpper(r))
				} else {
					b.WriteRune(unicode.ToLower(r))
				}
			}
			if got := gogu.Capitalize(s); got != b.String() {
				fail("Capitalize", "Capitalize(%q)=%q want %q", s, got, b.String())
			}
			nontrivial = lo != up
		case "Words":
			letters := alnumLower(s)
			sn, kb, cm := gogu.SnakeCase(s), gogu.KebabCase(s), gogu.CamelCase(s)
			for name, out := range map[string]string{"SnakeCase": sn, "KebabCase": kb, "CamelCase": cm} {
				if alnumLower(out) != letters {
					fail(name+"-letters", "%s(%q)=%q: letters/digits %q, input has %q", name, s, out, alnumLower(out), letters)
				}
				for _, r := range out {
					isAlnum := r < 128 && (unicode.IsLetter(r) || unicode.IsDigit(r))
					own := (name == "SnakeCase" && r == '_') || (name == "KebabCase" && r == '-')
					if !isAlnum && !own {
						fail(name+"-foreign-separator", "%s(%q)=%q contains %q", name, s, out, r)
						break
					}
					if name != "CamelCase" && unicode.IsUpper(r) {
						fail(name+"-uppercase", "%s(%q)=%q contains upper case", name, s, out)
						break
					}
				}
			}
			// CamelCase: upper case only at word initials (never the very first letter)
			ws := strings.FieldsFunc(s, func(r rune) bool { return strings.ContainsRune(" -_&", r) })
			want := ""
			for i, wd := range ws {
				l := strings.ToLower(wd)
				if i > 0 {
					l = strings.ToUpper(l[:1]) + l[1:]
				}
				want += l
			}
			if cm != want {
				fail("CamelCase-initials", "CamelCase(%q)=%q want %q (lower case apart from the word initials)", s, cm, want)
			}
			if again := gogu.SnakeCase(sn); again != sn {
				fail("SnakeCase-not-idempotent", "SnakeCase(%q)=%q but SnakeCase of that is %q", s, sn, again)
			}
			if again := gogu.KebabCase(kb); again != kb {
				fail("KebabCase-not-idempotent", "KebabCase(%q)=%q but KebabCase of that is %q", s, kb, again)
			}
			if strings.ReplaceAll(sn, "_", "-") != kb {
				fail("Snake-Kebab-differ", "SnakeCase(%q)=%q, KebabCase=%q differ in more than the delimiter", s, sn, kb)
			}
			nontrivial = len(ws) >= 2
		default:
			panic("unknown fn " + c.Fn)
		}
	})
	if p != nil {
		fail("panic", "%s(%q, tok %q, %d, %d) panicked: %v", c.Fn, s, tok, c.A, c.B, p)
		return
	}
	w.Count("calls:"+c.Fn, 1)
	if nontrivial {
		w.NonTrivial(core.HashString(core.JSON(c)))
	}
	if w.WantSample() && nontrivial && len(s) >= 3 {
		w.Sample(map[string]any{"fn": c.Fn, "s": s, "tok": tok, "a": c.A, "b": c.B})
	}
}

func allStrings(alpha []string, maxLen int) []string {
	out := []string{""}
	seq.Enum(alpha, maxLen, func(p []string) { out = append(out, strings.Join(p, "")) })
	return out
}


// FuzzHelpers is the coverage-guided part of the thorough tier (Go native fuzzing, bounded by an
// execution count). Each input is turned into one Case and judged by exactly the same oracle as
// the sweep (run); a failure prints the case and the signature for the driver, which files it as
// an ordinary replayable violation of the str-random monitor.
func FuzzHelpers(f *testing.F) {
	fns := []string{"Substr", "SplitAtIndex", "Pad", "Wrap", "Unwrap", "WrapAllRune", "Case", "Words"}
	f.Add(uint8(0), "abcdef", "'", 2, 3)
	f.Add(uint8(2), "héllo wörld", "_-", 14, 0)
	f.Add(uint8(4), "''a''", "''", 0, 0)
	f.Add(uint8(7), "fooBar baz_qux-HTTPServer", "", 0, 0)
	f.Add(uint8(6), "İstanbul ǅ ß", "", 0, 0)
	f.Fuzz(func(t *testing.T, fi uint8, s, tok string, a, b int) {
		c := Case{Fn: fns[int(fi)%len(fns)], S: hx(s), Tok: hx(tok), A: a, B: b}
		switch c.Fn {
		case "Pad":
			if tok == "" || a > len(s)+100000 { // empty token: not asserted; huge fields: only memory
				return
			}
		case "Words":
			for i := 0; i < len(s); i++ { // the case styles are asserted on ASCII words joined by ' -_&'
				ch := s[i]
				if !(ch >= 'a' && ch <= 'z' || ch >= 'A' && ch <= 'Z' || ch >= '0' && ch <= '9' || strings.IndexByte(" -_&", ch) >= 0) {
					return
				}
			}
		}
		w := core.Probe(func(sig, detail string) {
			t.Fatalf("VERIF-SIG %s\nVERIF-CASE %s\n%s", sig, core.JSON(c), detail)
		})
		run(w, c)
	})
}

func TestProp(t *testing.T) {
	r := core.Start(t, "C15")
	defer r.Finish()
	r.Rule("cases = one call (group) of a string helper against a byte-level reference: Substr (PHP-style rule, out of range = empty; offsets and lengths up to the int limits), SplitAtIndex (exactly two parts that concatenate to the input), PadLeft/PadRight/Pad (length, position, padding = prefix of the repeated token, fields up to 70 KB), Wrap + Unwrap round trip, Unwrap on arbitrary strings (unchanged unless wrapped), WrapAllRune, ToLower/ToUpper/Capitalize vs unicode per rune (every code point of the Latin..CJK-symbols range and of the cased blocks beyond, alone and between letters), ReverseStr (rune reversal, involution), CamelCase/SnakeCase/KebabCase clauses on words of ASCII letters/digits joined by runs of ' -_&'; non-trivial = input of >= 2 bytes (resp. padding needed / really wrapped / >= 2 words); distinct by hash of the case")

	alpha := []string{"a", "B", "é", "'", "*", " "}
	toks := []string{"'", "*", "''", "'*", "é", "a", "aB"}
	L := r.Pick(4, 5)
	core.Monitor(r, "str-sweep", 0, func(emit func(Case)) {
		ss := allStrings(alpha, L)
		for _, s := range ss {
			h := hx(s)
			n := len(s)
			for a := -(n + 3); a <= n+3; a++ {
				for b := -(n + 3); b <= n+3; b++ {
					emit(Case{Fn: "Substr", S: h, A: a, B: b})
				}
				emit(Case{Fn: "SplitAtIndex", S: h, A: a})
			}
			if n <= 3*2 { // offsets, lengths and indices at the edge of the int range ("the rest of the string")
				ext := []int{math.MaxInt, math.MaxInt - 1, math.MinInt, math.MinInt + 1, 1 << 62, -(1 << 62), 1 << 31}
				for _, x := range ext {
					for a := -(n + 1); a <= n+1; a++ {
						emit(Case{Fn: "Substr", S: h, A: a, B: x})
						emit(Case{Fn: "Substr", S: h, A: x, B: a})
					}
					emit(Case{Fn: "Substr", S: h, A: x, B: x})
					emit(Case{Fn: "SplitAtIndex", S: h, A: x})
				}
			}
			emit(Case{Fn: "Case", S: h})
			for _, tk := range toks {
				th := hx(tk)
				for size := n - 1; size <= n+2*len(tk)+3; size++ {
					emit(Case{Fn: "Pad", S: h, Tok: th, A: size})
				}
				emit(Case{Fn: "Wrap", S: h, Tok: th})
				emit(Case{Fn: "Unwrap", S: h, Tok: th})
				emit(Case{Fn: "WrapAllRune", S: h, Tok: th})
			}
			emit(Case{Fn: "Wrap", S: h, Tok: ""})
			emit(Case{Fn: "Unwrap", S: h, Tok: ""})
		}
		r.Exhaustive(fmt.Sprintf("all strings of <=%d symbols over {a,B,é,',*,space} x offsets/lengths/indices/sizes in len±3 x 7 tokens (Substr, SplitAtIndex, Pad*, Wrap/Unwrap, WrapAllRune, case mapping)", L), int64(len(ss)))
		// case mapping rune by rune: every code point of the range alone, after an ASCII letter and
		// before one (a table-free fast path for a block of code points is right for the letters of
		// the block and wrong for the one symbol among them)
		hiRune := rune(r.Pick(0x3000, 0x20000))
		var nr int64
		for cp := rune(0); cp < hiRune; cp++ {
			if cp >= 0xD800 && cp <= 0xDFFF {
				continue
			}
			emit(Case{Fn: "Case", S: hx(string(cp))})
			emit(Case{Fn: "Case", S: hx("A" + string(cp) + "b")})
			nr++
		}
		for _, blk := range [][2]rune{{0xA640, 0xA7FF}, {0xFF00, 0xFFEF}, {0x10400, 0x104FF}, {0x1E900, 0x1E95F}} {
			for cp := blk[0]; cp <= blk[1] && hiRune <= 0x3000; cp++ {
				emit(Case{Fn: "Case", S: hx(string(cp))})
				emit(Case{Fn: "Case", S: hx("A" + string(cp) + "b")})
				nr++
			}
		}
		r.Exhaustive(fmt.Sprintf("ToLower/ToUpper/Capitalize on every code point below U+%04X (plus the cased blocks A640-A7FF, FF00-FFEF, 10400-104FF, 1E900-1E95F) alone and between ASCII letters", hiRune), nr)
		// very wide fields (tens of KiB) with tokens of 1..7 bytes: the pattern must not drift
		for _, tk := range []string{"*", "ab", "_-|", "<=+=>", "abcdef", "1234567", "é.", "世界!"} {
			for _, size := range []int{4095, 8193, 20001, 30000, 70001} {
				emit(Case{Fn: "Pad", S: hx("abc"), Tok: hx(tk), A: size})
			}
		}
		// Unwrap on strings over the token characters only (many near-wrapped shapes)
		us := allStrings([]string{"'", "a", "*"}, r.Pick(6, 7))
		for _, s := range us {
			for _, tk := range []string{"'", "''", "'a", "a", "*'"} {
				emit(Case{Fn: "Unwrap", S: hx(s), Tok: hx(tk)})
				emit(Case{Fn: "Wrap", S: hx(s), Tok: hx(tk)})
			}
		}
		r.Exhaustive(fmt.Sprintf("Unwrap and the Wrap/Unwrap round trip on all strings of length<=%d over {',a,*} x 5 tokens", r.Pick(6, 7)), int64(len(us)))
		// case styles: words over a small vocabulary joined by separator runs
		words := []string{"foo", "Bar", "fooBar", "X", "a1", "HTTPServer", "b2C", "z"}
		seps := []string{" ", "-", "_", "&", "  ", " -", "_-", "& "}
		var nw int64
		for _, w1 := range words {
			emit(Case{Fn: "Words", S: hx(w1)})
			nw++
			for _, s1 := range seps {
				for _, w2 := range words {
					emit(Case{Fn: "Words", S: hx(w1 + s1 + w2)})
					nw++
					if !r.Quick() || len(s1) == 1 {
						for _, s2 := range seps {
							for _, w3 := range words[:5] {
								emit(Case{Fn: "Words", S: hx(w1 + s1 + w2 + s2 + w3)})
								nw++
							}
						}
					}
				}
			}
		}
		r.Exhaustive("CamelCase/SnakeCase/KebabCase on all 1-, 2- and 3-word phrases over an 8-word vocabulary x 8 separator runs", nw)
	}, run)

	nRand := r.Pick(20000, 1000000)
	core.Monitor(r, "str-random", 0, func(emit func(Case)) {
		rng := r.Rand("c15-random")
		sym := []string{"a", "b", "Z", "é", "世", "'", "*", " ", "-", "_", "ß", "İ", "1", "\x00", "𝄞"}
		rs := func(max int) string {
			var b strings.Builder
			for n := rng.Intn(max + 1); n > 0; n-- {
				b.WriteString(sym[rng.Intn(len(sym))])
			}
			return b.String()
		}
		letters := "abcXYZ019"
		rw := func() string {
			b := make([]byte, rng.Range(1, 7))
			for i := range b {
				b[i] = letters[rng.Intn(len(letters))]
			}
			return string(b)
		}
		fns := []string{"Substr", "SplitAtIndex", "Pad", "Wrap", "Unwrap", "WrapAllRune", "Case", "Words"}
		for i := 0; i < nRand; i++ {
			fn := fns[rng.Intn(len(fns))]
			s := rs(14)
			if i%40 == 39 { // long strings
				s = rs(600)
			}
			n := len(s)
			tk := rs(2)
			if tk == "" {
				tk = "#"
			}
			c := Case{Fn: fn, S: hx(s), Tok: hx(tk), A: rng.Range(-n-4, n+4), B: rng.Range(-n-4, n+4)}
			switch fn {
			case "Pad":
				c.A = rng.Range(0, n+12)
				if i%40 == 39 || i%40 == 38 {
					c.A = rng.Range(n, n+900)
				}
			case "Unwrap":
				if rng.Bool() { // nearly wrapped shapes
					c.S = hx(tk + rs(5) + []string{tk, "", tk[:len(tk)/2]}[rng.Intn(3)])
				}
			case "Words":
				var b strings.Builder
				for k := rng.Range(1, 5); k > 0; k-- {
					b.WriteString(rw())
					if k > 1 {
						for m := rng.Range(1, 3); m > 0; m-- {
							b.WriteByte(" -_&"[rng.Intn(4)])
						}
					}
				}
				c.S = hx(b.String())
			}
			emit(c)
		}
	}, run)
}
