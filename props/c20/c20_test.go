// C20 — delay, debounce and throttle never fire early or more often than
// allowed (DESIGN §4 C20). Oracle: timestamping callbacks and a consumer log
// inside testing/synctest bubbles (virtual time: every instant is exact),
// built with -race.
package c20

import (
	"runtime"
	"fmt"
	"sort"
	"sync"
	"testing"
	"testing/synctest"
	"time"

	"github.com/esimov/gogu"

	"verif/internal/core"
	"verif/internal/seq"
)

const us = time.Microsecond

// ================================================================= delay

type DelayCase struct {
	DelayUs int `json:"delay_us"`
	StopUs  int `json:"stop_us"` // <0: never stopped
}

func runDelay(w *core.Worker, c DelayCase) {
	var viol, detail string
	fail := func(sig, format string, a ...any) {
		if viol == "" {
			viol, detail = "delay."+sig, fmt.Sprintf(format, a...)
		}
	}
	p := core.Catch(func() {
		synctest.Test(w.R.T.(*testing.T), func(t *testing.T) {
			t0 := time.Now()
			var mu sync.Mutex
			var fired []time.Duration
			d := time.Duration(c.DelayUs) * us
			tm := gogu.Delay(d, func() {
				mu.Lock()
				fired = append(fired, time.Since(t0))
				mu.Unlock()
			})
			stopped := false
			if c.StopUs >= 0 {
				time.Sleep(time.Duration(c.StopUs) * us)
				stopped = tm.Stop()
			}
			time.Sleep(3*d + time.Millisecond)
			synctest.Wait()
			mu.Lock()
			defer mu.Unlock()
			for _, f := range fired {
				if f < d {
					fail("fired-early", "Delay(%v): callback ran at +%v", d, f)
					return
				}
			}
			if len(fired) > 1 {
				fail("fired-twice", "Delay(%v): callback ran %d times (%v)", d, len(fired), fired)
				return
			}
			stopBefore := c.StopUs >= 0 && time.Duration(c.StopUs)*us < d
			if stopBefore && (len(fired) != 0 || !stopped) {
				fail("fired-after-stop", "Delay(%v) stopped at +%v (Stop()=%v) but the callback ran at %v", d, time.Duration(c.StopUs)*us, stopped, fired)
				return
			}
			if !stopBefore && len(fired) != 1 {
				fail("never-fired", "Delay(%v) (stop at %dus) had not run by +%v", d, c.StopUs, time.Since(t0))
			}
		})
	})
	if p != nil && viol == "" {
		viol, detail = "delay.panic", fmt.Sprint(p)
	}
	if viol != "" {
		w.Violation(viol, detail)
		return
	}
	w.NonTrivial(core.HashString(core.JSON(c)))
}

// ================================================================= debounce

type DEvent struct {
	GapUs int    `json:"gap_us"` // time since the previous event (first: since start)
	Kind  string `json:"kind"`   // call | burst | cancel
}

type DebCase struct {
	WaitUs int      `json:"wait_us"`
	Events []DEvent `json:"events"`
	WorkUs int      `json:"work_us,omitempty"` // virtual time the debounced function itself takes
	Rep    int      `json:"rep,omitempty"`
}

func runDeb(w *core.Worker, c DebCase) {
	var viol, detail string
	var vmu sync.Mutex
	fail := func(sig, format string, a ...any) {
		vmu.Lock()
		if viol == "" {
			viol, detail = "debounce."+sig, fmt.Sprintf(format, a...)
		}
		vmu.Unlock()
	}
	nFired := 0
	p := core.Catch(func() {
		synctest.Test(w.R.T.(*testing.T), func(t *testing.T) {
			t0 := time.Now()
			wait := time.Duration(c.WaitUs) * us
			call, cancel := gogu.NewDebounce(wait)
			type firing struct {
				ev int
				at time.Duration
			}
			var mu sync.Mutex
			var fired []firing
			evAt := make([]time.Duration, len(c.Events))
			mkf := func(ev int) func() {
				return func() {
					mu.Lock()
					fired = append(fired, firing{ev, time.Since(t0)})
					mu.Unlock()
					if c.WorkUs > 0 { // a slow function: later calls and cancels arrive while it runs
						time.Sleep(time.Duration(c.WorkUs) * us)
					}
				}
			}
			for i, e := range c.Events {
				time.Sleep(time.Duration(e.GapUs) * us)
				evAt[i] = time.Since(t0)
				switch e.Kind {
				case "call":
					call(mkf(i))
				case "burst":
					var wg sync.WaitGroup
					for k := 0; k < 3; k++ {
						wg.Add(1)
						go func() { defer wg.Done(); call(mkf(i)) }()
					}
					wg.Wait()
				case "race": // three calls and a cancel at the same instant from four goroutines: the burst may or may not survive
					var wg sync.WaitGroup
					for k := 0; k < 4; k++ {
						wg.Add(1)
						go func() {
							defer wg.Done()
							if k == 1 {
								cancel()
							} else {
								call(mkf(i))
							}
						}()
					}
					wg.Wait()
				case "cancel":
					cancel()
				}
			}
			time.Sleep(3*wait + time.Duration(c.WorkUs)*us + time.Millisecond)
			synctest.Wait()
			mu.Lock()
			defer mu.Unlock()
			nFired = len(fired)
			// expected: a call/burst event fires (exactly one closure) iff no later event arrives within its wait
			for i, e := range c.Events {
				cnt := 0
				for _, f := range fired {
					if f.ev == i {
						cnt++
						if f.at < evAt[i]+wait {
							fail("fired-early", "wait %v: the function scheduled at +%v ran at +%v", wait, evAt[i], f.at)
							return
						}
						// it must also respect the most recent call before it fired
						for j := range c.Events {
							if c.Events[j].Kind != "cancel" && evAt[j] <= f.at && f.at < evAt[j]+wait {
								fail("fired-during-burst", "wait %v: a function ran at +%v although a call arrived at +%v, less than the wait before", wait, f.at, evAt[j])
								return
							}
						}
					}
				}
				if e.Kind == "cancel" {
					continue
				}
				superseded := i+1 < len(c.Events) && evAt[i+1] < evAt[i]+wait
				switch {
				case superseded && cnt > 0:
					what := "a later call"
					if c.Events[i+1].Kind == "cancel" {
						what = "cancel"
					}
					fail("superseded-call-fired", "wait %v: the function scheduled at +%v ran although %s arrived at +%v", wait, evAt[i], what, evAt[i+1])
					return
				case !superseded && cnt == 0 && e.Kind == "race":
					// the cancel was ordered last
				case !superseded && cnt == 0:
					fail("never-fired", "wait %v: the function scheduled at +%v (event %d, no call or cancel within the wait) had not run by +%v", wait, evAt[i], i, time.Since(t0))
					return
				case cnt > 1:
					fail("fired-more-than-once-per-burst", "wait %v: %d functions of the burst at +%v ran", wait, cnt, evAt[i])
					return
				}
			}
		})
	})
	if p != nil && viol == "" {
		viol, detail = "debounce.panic", fmt.Sprint(p)
	}
	if viol != "" {
		w.Violation(viol, detail)
		return
	}
	if len(c.Events) >= 2 {
		cc := c
		cc.Rep = 0
		w.NonTrivial(core.HashString(core.JSON(cc)))
	}
	w.Count("debounce_firings_observed", int64(nFired))
	if w.WantSample() && len(c.Events) >= 3 && nFired >= 1 {
		w.Sample(map[string]any{"case": c, "firings": nFired})
	}
}

// ================================================================= throttle

type Consumer struct {
	StartUs int `json:"start_us"`
	WorkUs  int `json:"work_us"` // simulated work after each permission
}

type TEvent struct {
	GapUs int    `json:"gap_us"`
	Kind  string `json:"kind"` // call | burst
}

type ThrCase struct {
	PeriodUs  int        `json:"period_us"`
	Trailing  bool       `json:"trailing"`
	Consumers []Consumer `json:"consumers"`
	Events    []TEvent   `json:"events"`
	CancelGap int        `json:"cancel_gap_us"` // after the last event
	Rep       int        `json:"rep,omitempty"`
}

type nextRec struct {
	consumer    int
	entry, exit time.Duration
	done        bool
	result      bool
}

func runThr(w *core.Worker, c ThrCase) {
	var viol, detail string
	var vmu sync.Mutex
	fail := func(sig, format string, a ...any) {
		vmu.Lock()
		if viol == "" {
			viol, detail = "throttle."+sig, fmt.Sprintf(format, a...)
		}
		vmu.Unlock()
	}
	nGrants := 0
	p := core.Catch(func() {
		synctest.Test(w.R.T.(*testing.T), func(t *testing.T) {
			t0 := time.Now()
			P := time.Duration(c.PeriodUs) * us
			th := gogu.NewThrottle(P, c.Trailing)
			var mu sync.Mutex
			var recs []*nextRec
			var triggers []time.Duration
			cancelAt := time.Duration(-1)

			var wg sync.WaitGroup
			for ci, cs := range c.Consumers {
				wg.Add(1)
				go func(ci int, cs Consumer) {
					defer wg.Done()
					time.Sleep(time.Duration(cs.StartUs) * us)
					falses := 0
					for falses < 2 { // after the first false, one more Next: "future Next returns false"
						r := &nextRec{consumer: ci, entry: time.Since(t0)}
						mu.Lock()
						recs = append(recs, r)
						mu.Unlock()
						ok := th.Next()
						mu.Lock()
						r.exit, r.done, r.result = time.Since(t0), true, ok
						mu.Unlock()
						if !ok {
							falses++
							continue
						}
						if cs.WorkUs > 0 {
							time.Sleep(time.Duration(cs.WorkUs) * us)
						}
					}
				}(ci, cs)
			}

			// quiescent-point check for the trailing clause
			checkLive := func() {
				if !c.Trailing {
					return
				}
				T := time.Since(t0)
				mu.Lock()
				defer mu.Unlock()
				last := time.Duration(-1)
				for _, r := range recs {
					if r.done && r.result && r.exit > last {
						last = r.exit
					}
				}
				var trig time.Duration = -1
				for _, tr := range triggers {
					if tr > last {
						trig = tr
						break
					}
				}
				if trig < 0 {
					return
				}
				due := trig
				if last >= 0 && last+P > due {
					due = last + P
				}
				for _, r := range recs {
					if !r.done && r.entry < T && due < T {
						fail("trailing-trigger-not-granted", "period %v trailing: at +%v consumer %d has been waiting in Next since +%v, the last permission was at +%v and a trigger arrived at +%v, so a permission was due at +%v", P, T, r.consumer, r.entry, last, trig, due)
						return
					}
				}
			}

			for _, e := range c.Events {
				time.Sleep(time.Duration(e.GapUs) * us)
				synctest.Wait()
				checkLive()
				now := time.Since(t0)
				mu.Lock()
				triggers = append(triggers, now)
				mu.Unlock()
				if e.Kind == "burst" {
					var bw sync.WaitGroup
					for k := 0; k < 3; k++ {
						bw.Add(1)
						go func() { defer bw.Done(); th.Call() }()
					}
					bw.Wait()
				} else {
					th.Call()
				}
				synctest.Wait()
				checkLive()
			}
			time.Sleep(time.Duration(c.CancelGap) * us)
			synctest.Wait()
			checkLive()
			cancelAt = time.Since(t0)
			th.Cancel()
			synctest.Wait()
			// promptness: every Next that was pending at Cancel has returned false with no virtual time elapsed
			mu.Lock()
			for _, r := range recs {
				if r.entry <= cancelAt && !r.done {
					fail("next-still-blocked-after-cancel", "consumer %d entered Next at +%v and is still blocked after Cancel at +%v", r.consumer, r.entry, cancelAt)
				}
			}
			mu.Unlock()
			time.Sleep(3*P + time.Millisecond)
			wg.Wait()
			synctest.Wait()
			// "future Next": triggers that arrive after Cancel (and a trailing timer armed before
			// it) must not revive the throttle - Next keeps returning false at once.
			for k := 0; k < 2; k++ {
				th.Call()
				time.Sleep(P/3 + 7*us)
				in := time.Since(t0)
				ok := th.Next()
				out := time.Since(t0)
				if ok {
					fail("permission-after-cancel", "Next called at +%v (Cancel was at +%v, a Call arrived after it) returned true", in, cancelAt)
				} else if out != in {
					fail("cancel-not-prompt", "Next called at +%v after Cancel (+%v) returned false only at +%v", in, cancelAt, out)
				}
				time.Sleep(2*P + 3*us)
			}

			mu.Lock()
			defer mu.Unlock()
			var grants []time.Duration
			for _, r := range recs {
				if !r.done {
					fail("next-never-returned", "consumer %d: Next entered at +%v never returned", r.consumer, r.entry)
					return
				}
				if r.result {
					grants = append(grants, r.exit)
					if r.entry > cancelAt || (r.entry <= cancelAt && r.exit > cancelAt) {
						fail("permission-after-cancel", "consumer %d: Next entered at +%v returned true at +%v, Cancel was at +%v", r.consumer, r.entry, r.exit, cancelAt)
						return
					}
				} else {
					ref := r.entry
					if cancelAt > ref {
						ref = cancelAt
					}
					if r.exit < cancelAt {
						fail("false-before-cancel", "consumer %d: Next returned false at +%v, before Cancel at +%v", r.consumer, r.exit, cancelAt)
						return
					}
					if r.exit != ref {
						fail("cancel-not-prompt", "consumer %d: Next (entered +%v) returned false only at +%v, Cancel was at +%v", r.consumer, r.entry, r.exit, cancelAt)
						return
					}
				}
			}
			sort.Slice(grants, func(i, j int) bool { return grants[i] < grants[j] })
			nGrants = len(grants)
			for i, g := range grants {
				prev := time.Duration(-1 << 62)
				if i > 0 {
					prev = grants[i-1]
					if g-prev < P {
						fail("two-permissions-within-one-period", "period %v trailing=%v: permissions at +%v and +%v (triggers at %v)", P, c.Trailing, prev, g, triggers)
						return
					}
				}
				found, late := false, false
				for _, tr := range triggers {
					if tr >= prev && tr <= g {
						found = true
						if i == 0 || tr-prev >= P {
							late = true
						}
					}
				}
				if !found {
					fail("permission-without-trigger", "period %v: permission at +%v but no trigger arrived since the previous permission at +%v (triggers at %v)", P, g, prev, triggers)
					return
				}
				if !c.Trailing && !late {
					fail("trailing-trigger-kept-although-off", "period %v trailing=false: permission at +%v although every trigger since the previous permission (+%v) arrived within one period of it (triggers at %v)", P, g, prev, triggers)
					return
				}
			}
		})
	})
	if p != nil && viol == "" {
		viol, detail = "throttle.panic", fmt.Sprint(p)
	}
	if viol != "" {
		w.Violation(viol, detail)
		return
	}
	if len(c.Events) >= 2 {
		cc := c
		cc.Rep = 0
		w.NonTrivial(core.HashString(core.JSON(cc)))
	}
	w.Count("throttle_permissions_observed", int64(nGrants))
	if w.WantSample() && len(c.Events) >= 3 && nGrants >= 2 {
		w.Sample(map[string]any{"case": c, "permissions": nGrants})
	}
}


// ================================================================= throttle on real timers
//
// Virtual time makes the library's timers fire at their exact instant, so a window that only
// exists because a real timer callback runs a little late cannot open there. This monitor
// runs the throttle on the real clock under a storm of triggers and judges ONE-SIDED only: the
// consumer takes permissions in pairs and brackets each pair with two monotonic clock readings
// a (before the first Next) and b (after the second); both grants lie inside [a,b], so
// b-a < period means two permissions less than one period apart - on any machine, at any
// load. A slow machine can only make the check vacuous, never wrong.

type RTCase struct {
	PeriodUs int  `json:"period_us"`
	Trailing bool `json:"trailing"`
	RunMs    int  `json:"run_ms"`
	Callers  int  `json:"callers"`
	Rep      int  `json:"rep,omitempty"`
}

func runRT(w *core.Worker, c RTCase) {
	P := time.Duration(c.PeriodUs) * us
	th := gogu.NewThrottle(P, c.Trailing)
	stop := make(chan struct{})
	var wg sync.WaitGroup
	for k := 0; k < c.Callers; k++ {
		wg.Add(1)
		go func(k int) {
			defer wg.Done()
			for i := 0; ; i++ {
				select {
				case <-stop:
					return
				default:
				}
				th.Call()
				if i%64 == k {
					time.Sleep(time.Duration(1+i%7) * us) // let timer callbacks and the consumer in
				}
			}
		}(k)
	}
	pairs, short := 0, 0
	var worst time.Duration
	deadline := time.Now().Add(time.Duration(c.RunMs) * time.Millisecond)
	for time.Now().Before(deadline) {
		a := time.Now()
		ok1 := th.Next()
		ok2 := th.Next()
		b := time.Now()
		if !ok1 || !ok2 {
			w.Violation("throttle.realtime-next-false-without-cancel", fmt.Sprintf("period %v trailing=%v: Next returned false (%v,%v) although Cancel was never called", P, c.Trailing, ok1, ok2))
			break
		}
		pairs++
		if d := b.Sub(a); d < P {
			short++
			if worst == 0 || d < worst {
				worst = d
			}
		}
		w.Tick()
	}
	th.Cancel()
	close(stop)
	wg.Wait()
	w.Count("realtime_permission_pairs_bracketed", int64(pairs))
	if short > 0 {
		w.Violation("throttle.realtime-two-permissions-within-one-period", fmt.Sprintf("period %v trailing=%v, %d trigger goroutines: %d of %d bracketed pairs of permissions were taken within less than one period (shortest bracket %v, real monotonic clock)", P, c.Trailing, c.Callers, short, pairs, worst))
		return
	}
	if pairs == 0 {
		w.R.Inconclusive(1, "realtime-no-pairs")
		return
	}
	w.NonTrivial(core.HashString(core.JSON(c)))
	if w.WantSample() {
		w.Sample(map[string]any{"case": c, "pairs": pairs})
	}
}


// ================================================================= Cancel racing with Next
//
// The scripts above call Cancel at a quiescent point (every consumer already parked in Next).
// Here Cancel is fired WHILE consumers are on their way into Next: a Next that has checked the
// stop flag but is not yet parked must not miss the wake-up. Goroutines run truly in parallel
// inside the bubble; the offsets are spin counts. Verdict at the next quiescent point: every
// Next has returned false (sync.Cond.Wait parks durably, so a lost wake-up is visible there).

type CRCase struct {
	Consumers int   `json:"consumers"`
	Spins     []int `json:"spins"` // per consumer, before calling Next
	CancelAt  int   `json:"cancel_spins"`
	Trailing  bool  `json:"trailing"`
	Trigger   bool  `json:"trigger"` // a Call shortly before
	Rep       int   `json:"rep,omitempty"`
}

func runCR(w *core.Worker, c CRCase) {
	var viol, detail string
	var vmu sync.Mutex
	fail := func(sig, format string, a ...any) {
		vmu.Lock()
		if viol == "" {
			viol, detail = "throttle."+sig, fmt.Sprintf(format, a...)
		}
		vmu.Unlock()
	}
	p := core.Catch(func() {
		synctest.Test(w.R.T.(*testing.T), func(t *testing.T) {
			th := gogu.NewThrottle(5*time.Millisecond, c.Trailing)
			if c.Trigger {
				th.Call()
				if !th.Next() {
					fail("next-false-without-cancel", "Next returned false before Cancel")
					return
				}
			}
			var mu sync.Mutex
			done := make([]bool, c.Consumers)
			res := make([]bool, c.Consumers)
			start := make(chan struct{})
			for i := 0; i < c.Consumers; i++ {
				go func(i int) {
					<-start
					for k := 0; k < c.Spins[i]; k++ {
						runtime.Gosched()
					}
					ok := th.Next()
					mu.Lock()
					done[i], res[i] = true, ok
					mu.Unlock()
				}(i)
			}
			close(start)
			for k := 0; k < c.CancelAt; k++ {
				runtime.Gosched()
			}
			th.Cancel()
			synctest.Wait()
			mu.Lock()
			for i := range done {
				if !done[i] {
					fail("next-still-blocked-after-cancel", "Cancel fired while %d consumers were entering Next (spins %v, cancel after %d yields): consumer %d is still blocked in Next at the next quiescent point", c.Consumers, c.Spins, c.CancelAt, i)
				} else if res[i] && !c.Trigger {
					fail("permission-without-trigger", "consumer %d got a permission although no trigger ever arrived", i)
				}
			}
			mu.Unlock()
			th.Cancel() // lets stragglers of a broken implementation go, so that the bubble can end
			th.Call()
		})
	})
	if p != nil && viol == "" {
		viol, detail = "throttle.cancel-race-panic", fmt.Sprint(p)
	}
	if viol != "" {
		w.Violation(viol, detail)
		return
	}
	cc := c
	cc.Rep = 0
	w.NonTrivial(core.HashString(core.JSON(cc)))
}

// ================================================================= generators

func TestProp(t *testing.T) {
	r := core.Start(t, "C20")
	defer r.Finish()
	r.Rule("all inside testing/synctest bubbles (-race build), timestamps are exact virtual instants. delay: Delay(d) with Stop at instants around d: not before d, once, not after Stop, does run otherwise. debounce: scripts of call / burst of 3 concurrent calls / cancel with gaps below and above the wait (never equal): a function runs iff no call or cancel follows within the wait, exactly one per burst, never sooner than wait after the latest call, also when the debounced function itself takes time (0.6 / 1.7 waits) so that calls and cancels arrive while it runs. throttle: scripts of Call / burst of 3 concurrent Calls with gaps around the period, consumer goroutines looping on Next (always waiting, late, with simulated work, two consumers), Cancel at the end: permissions >= one period apart, each preceded by a trigger since the previous one (trailing off: by one that came >= a period later), trailing on: at every quiescent point a waiting Next has been served once trigger and period are due, after Cancel every Next returns false with zero virtual time elapsed, also after further Calls; throttle-cancel-race: Cancel fired while 2-8 consumers are on their way into Next (spin-count offsets, true parallelism inside the bubble): at the next quiescent point every Next has returned false; throttle-realtime: the same throttle on the real clock under a storm of Call() from 2-3 goroutines, permissions taken in pairs and bracketed by monotonic clock readings (bracket < period = two permissions within one period; one-sided, load-proof); non-trivial = >= 2 events; distinct by hash of the case without the repetition index")

	core.Monitor(r, "delay", 0, func(emit func(DelayCase)) {
		for _, d := range []int{5000, 20000, 50000} {
			emit(DelayCase{d, -1})
			for _, s := range []int{0, 1, d / 2, d - 1, d + 1, 2 * d} {
				emit(DelayCase{d, s})
			}
		}
	}, runDelay)

	reps := r.Pick(1, 4)
	core.Monitor(r, "debounce", 0, func(emit func(DebCase)) {
		kinds := []string{"call", "burst", "cancel"}
		var n int64
		for _, wt := range []int{5000, 50000} {
			gaps := []int{wt*3/10 + 7, wt*9/10 + 13, wt*12/10 + 3, 3*wt + 11}
			var alpha []DEvent
			for _, g := range gaps {
				for _, k := range kinds {
					alpha = append(alpha, DEvent{g, k})
				}
			}
			n += seq.Enum(alpha, r.Pick(4, 5), func(ev []DEvent) {
				for rep := 0; rep < reps; rep++ {
					emit(DebCase{WaitUs: wt, Events: ev, Rep: rep})
				}
				if len(ev) <= r.Pick(3, 4) { // the debounced function itself takes 0.6 / 1.7 waits
					emit(DebCase{WaitUs: wt, Events: ev, WorkUs: wt*6/10 + 19})
					emit(DebCase{WaitUs: wt, Events: ev, WorkUs: wt*17/10 + 23})
				}
			})
		}
		// calls racing with a cancel, followed by calls at 0.3 / 1.2 waits
		for _, wt := range []int{5000, 50000} {
			var alpha []DEvent
			for _, g := range []int{wt*3/10 + 7, wt*12/10 + 3} {
				alpha = append(alpha, DEvent{g, "race"}, DEvent{g, "call"})
			}
			seq.Enum(alpha, 4, func(ev []DEvent) {
				for rep := 0; rep < 2*reps; rep++ {
					emit(DebCase{WaitUs: wt, Events: ev, Rep: rep})
				}
			})
		}
		r.Exhaustive(fmt.Sprintf("debounce: all scripts of length<=%d over {call, burst, cancel} x 4 gaps (0.3, 0.9, 1.2, 3 x wait) x waits {5ms, 50ms}", r.Pick(4, 5)), n)
		// long bursts of 1..50 calls
		rng := r.Rand("c20-deb")
		for i := r.Pick(300, 5000); i > 0; i-- {
			wt := []int{5000, 20000, 50000}[rng.Intn(3)]
			c := DebCase{WaitUs: wt}
			if i%3 == 0 {
				c.WorkUs = rng.Range(1, 2*wt)
			}
			for k := rng.Range(1, 50); k > 0; k-- {
				g := rng.Range(1, wt-1)
				if rng.Chance(1, 6) {
					g = wt + rng.Range(1, wt)
				}
				kind := "call"
				if rng.Chance(1, 10) {
					kind = "cancel"
				} else if rng.Chance(1, 8) {
					kind = "burst"
				} else if rng.Chance(1, 6) {
					kind = "race"
				}
				c.Events = append(c.Events, DEvent{g, kind})
			}
			emit(c)
		}
	}, runDeb)

	treps := r.Pick(1, 4)
	core.Monitor(r, "throttle", 0, func(emit func(ThrCase)) {
		var n int64
		periods := []int{5000}
		if !r.Quick() {
			periods = []int{5000, 50000}
		}
		for _, P := range periods {
			gaps := []int{P*2/10 + 7, P*7/10 + 13, P*13/10 + 3, P*25/10 + 11}
			var alpha []TEvent
			for _, g := range gaps {
				alpha = append(alpha, TEvent{g, "call"}, TEvent{g, "burst"})
			}
			consumerSets := [][]Consumer{
				{{0, 0}},                     // always waiting
				{{P*3/10 + 29, 0}},           // arrives after the first trigger
				{{P*15/10 + 31, 0}},          // arrives late
				{{0, P/2 + 17}},              // works half a period after each permission
				{{0, P*14/10 + 19}},          // works longer than a period
				{{0, 0}, {P/10 + 37, 0}},     // two consumers
				{{0, P/3 + 41}, {0, P + 43}}, // two working consumers
			}
			for _, tr := range []bool{false, true} {
				for _, cs := range consumerSets {
					n += seq.Enum(alpha, r.Pick(4, 5), func(ev []TEvent) {
						for rep := 0; rep < treps; rep++ {
							emit(ThrCase{PeriodUs: P, Trailing: tr, Consumers: cs, Events: ev, CancelGap: []int{P/5 + 53, 2*P + 59}[(len(ev)+rep)%2], Rep: rep})
						}
					})
				}
			}
		}
		r.Exhaustive(fmt.Sprintf("throttle: all scripts of length<=%d over {Call, burst of 3} x 4 gaps (0.2, 0.7, 1.3, 2.5 x period) x 7 consumer arrangements x trailing on/off x periods %v", r.Pick(4, 5), periods), n)
		rng := r.Rand("c20-thr")
		for i := r.Pick(2000, 50000); i > 0; i-- {
			P := []int{5000, 10000, 50000}[rng.Intn(3)]
			c := ThrCase{PeriodUs: P, Trailing: rng.Bool(), CancelGap: rng.Range(1, 3*P)}
			for k := rng.Range(1, 3); k > 0; k-- {
				c.Consumers = append(c.Consumers, Consumer{StartUs: rng.Intn(2*P) + k, WorkUs: []int{0, 0, rng.Intn(2 * P)}[rng.Intn(3)]})
			}
			for k := rng.Range(1, 12); k > 0; k-- {
				g := rng.Range(1, 3*P)
				if g == P {
					g++
				}
				kind := "call"
				if rng.Chance(1, 4) {
					kind = "burst"
				}
				c.Events = append(c.Events, TEvent{g, kind})
			}
			emit(c)
		}
	}, runThr)

	core.Monitor(r, "throttle-realtime", 6, func(emit func(RTCase)) {
		for rep := 0; rep < r.Pick(3, 12); rep++ {
			for _, tr := range []bool{true, false} {
				for _, P := range []int{250, 1000, 4000} {
					if r.Quick() && (P == 4000 || (!tr && rep > 0)) {
						continue
					}
					emit(RTCase{PeriodUs: P, Trailing: tr, RunMs: r.Pick(1200, 5000), Callers: 2 + rep%2, Rep: rep})
				}
			}
		}
	}, runRT)

	core.Monitor(r, "throttle-cancel-race", 0, func(emit func(CRCase)) {
		rng := r.Rand("c20-cancel-race")
		for i := r.Pick(40000, 600000); i > 0; i-- {
			c := CRCase{Consumers: rng.Range(2, 8), CancelAt: rng.Intn(24), Trailing: rng.Bool(), Trigger: rng.Chance(1, 4), Rep: i}
			for k := 0; k < c.Consumers; k++ {
				c.Spins = append(c.Spins, rng.Intn(24))
			}
			emit(c)
		}
	}, runCR)
}
