// C01 — concurrent use of the lock-guarded containers is race-, panic- and
// deadlock-free (DESIGN §3.2, §3.3, §4 C01).
//
// Built ONLY against the scratch copy of the repository in which `import "sync"`
// is redirected to the vsync shim:
//
//	variant race-jitter  (-race): the race detector observes every access; vsync
//	                     injects yields/µs-sleeps at lock boundaries without shared state
//	variant tracked      (no -race): TryLock-based acquisition with an acquisition log and
//	                     the logical deadlock verdict; decides deadlock / leaked lock /
//	                     instance-unusable-afterwards / panic-under-concurrency
//
// Every scenario is a Go sub-test "Type/A||B/state" so that race reports in the
// child's output are attributed by the driver.
package c01

import (
	"encoding/json"
	"fmt"
	"os"
	"runtime"
	"strings"
	"sync"
	"testing"
	"time"

	"github.com/esimov/gogu/bstree"
	"github.com/esimov/gogu/cache"
	"github.com/esimov/gogu/heap"
	"github.com/esimov/gogu/queue"
	"github.com/esimov/gogu/stack"
	"github.com/esimov/gogu/trie"
	"github.com/esimov/gogu/vsync"

	"verif/internal/core"
)

type method struct {
	name string
	call func(inst any, arg int)
}

type ctype struct {
	name    string
	mk      func(state int) any
	methods []method
	sanity  func(inst any) // post-scenario usability sequence
	stop    func(inst any)
}

func lt(a, b int) bool { return a < b }
func gt(a, b int) bool { return a > b }

func fill(n int, f func(v int)) {
	for i := 1; i <= n; i++ {
		f(i)
	}
}

var keys = []string{"a", "ab", "b", "abc"}

// heapPeers gives every Heap instance of a scenario a second SHARED heap: two workers can then
// work on the same two heaps in opposite roles (a.Meld(b) against b.Meld(a)).
var heapPeers sync.Map

func heapPeer(i any) *heap.Heap[int] {
	p, _ := heapPeers.Load(i)
	return p.(*heap.Heap[int])
}

func types() []ctype {
	return []ctype{
		{
			name: "Heap",
			mk: func(n int) any {
				h := heap.NewHeap(lt)
				fill(n, func(v int) { h.Push(v) })
				peer := heap.NewHeap(lt)
				peer.Push(11, 12)
				heapPeers.Store(h, peer)
				return h
			},
			methods: []method{
				{"Size", func(i any, a int) { _ = i.(*heap.Heap[int]).Size() }},
				{"IsEmpty", func(i any, a int) { _ = i.(*heap.Heap[int]).IsEmpty() }},
				{"Clear", func(i any, a int) { i.(*heap.Heap[int]).Clear() }},
				{"Peek", func(i any, a int) { _ = i.(*heap.Heap[int]).Peek() }},
				{"GetValues+read", func(i any, a int) {
					s := 0
					for _, v := range i.(*heap.Heap[int]).GetValues() {
						s += v
					}
					_ = s
				}},
				{"Push", func(i any, a int) { i.(*heap.Heap[int]).Push(a%4 + 1) }},
				{"Push2", func(i any, a int) { i.(*heap.Heap[int]).Push(a%4+1, 7) }},
				{"Pop", func(i any, a int) { _ = i.(*heap.Heap[int]).Pop() }},
				{"Delete", func(i any, a int) { i.(*heap.Heap[int]).Delete(a%4 + 1) }},
				{"Convert", func(i any, a int) { i.(*heap.Heap[int]).Convert(gt) }},
				{"Merge(recv)", func(i any, a int) {
					o := heap.NewHeap(lt)
					o.Push(5, 6)
					r := i.(*heap.Heap[int]).Merge(o)
					_ = r.Size()
				}},
				{"Merge(arg)", func(i any, a int) {
					o := heap.NewHeap(lt)
					o.Push(5, 6)
					r := o.Merge(i.(*heap.Heap[int]))
					_ = r.Size()
				}},
				{"Meld(recv)", func(i any, a int) {
					o := heap.NewHeap(lt)
					o.Push(5, 6)
					r := i.(*heap.Heap[int]).Meld(o)
					_ = r.Size()
				}},
				{"Meld(arg)", func(i any, a int) {
					o := heap.NewHeap(lt)
					o.Push(5, 6)
					r := o.Meld(i.(*heap.Heap[int]))
					_ = r.Size()
				}},
				// the same two shared heaps in both roles
				{"Meld(recv,peer)", func(i any, a int) { _ = i.(*heap.Heap[int]).Meld(heapPeer(i)).Size() }},
				{"Meld(arg,peer)", func(i any, a int) { _ = heapPeer(i).Meld(i.(*heap.Heap[int])).Size() }},
				{"Merge(recv,peer)", func(i any, a int) { _ = i.(*heap.Heap[int]).Merge(heapPeer(i)).Size() }},
				{"Merge(arg,peer)", func(i any, a int) { _ = heapPeer(i).Merge(i.(*heap.Heap[int])).Size() }},
				{"Push(peer)", func(i any, a int) { heapPeer(i).Push(a%4 + 1) }},
			},
			sanity: func(i any) {
				h := i.(*heap.Heap[int])
				h.Push(9)
				_ = h.Size()
				_ = h.Peek()
				h.Delete(9)
				_ = h.Pop()
				h.Clear()
				p := heapPeer(i)
				p.Push(9)
				_ = p.Pop()
				heapPeers.Delete(i)
			},
		},
		{
			name: "BsTree",
			mk: func(n int) any {
				b := bstree.New[int, int](lt)
				for _, k := range []int{2, 1, 3}[:n] {
					b.Upsert(k, k*10)
				}
				return b
			},
			methods: []method{
				{"Size", func(i any, a int) { _ = i.(*bstree.BsTree[int, int]).Size() }},
				{"Get", func(i any, a int) { _, _ = i.(*bstree.BsTree[int, int]).Get(a%4 + 1) }},
				{"Upsert", func(i any, a int) { i.(*bstree.BsTree[int, int]).Upsert(a%4+1, a) }},
				{"Delete", func(i any, a int) { _ = i.(*bstree.BsTree[int, int]).Delete(a%4 + 1) }},
				{"Traverse", func(i any, a int) {
					s := 0
					i.(*bstree.BsTree[int, int]).Traverse(func(it bstree.Item[int, int]) { s += it.Key + it.Val })
					_ = s
				}},
			},
			sanity: func(i any) {
				b := i.(*bstree.BsTree[int, int])
				b.Upsert(9, 9)
				_, _ = b.Get(9)
				_ = b.Delete(9)
				_ = b.Size()
				b.Traverse(func(bstree.Item[int, int]) {})
			},
		},
		{
			name: "Trie",
			mk: func(n int) any {
				t := trie.New[string, int](queue.New[string]())
				for j, k := range keys[:n] {
					t.Put(k, j)
				}
				return t
			},
			methods: []method{
				{"Size", func(i any, a int) { _ = i.(*trie.Trie[string, int]).Size() }},
				{"Contains", func(i any, a int) { _ = i.(*trie.Trie[string, int]).Contains(keys[a%4]) }},
				{"Put", func(i any, a int) { i.(*trie.Trie[string, int]).Put(keys[a%4], a) }},
				{"Get", func(i any, a int) { _, _ = i.(*trie.Trie[string, int]).Get(keys[a%4]) }},
				{"LongestPrefix", func(i any, a int) { _, _ = i.(*trie.Trie[string, int]).LongestPrefix(keys[a%4] + "x") }},
				{"StartsWith+drain", func(i any, a int) {
					q, err := i.(*trie.Trie[string, int]).StartsWith("a")
					if err == nil {
						for n := q.Size(); n > 0; n-- {
							q.Dequeue()
						}
					}
				}},
				{"Keys+drain", func(i any, a int) {
					q, err := i.(*trie.Trie[string, int]).Keys()
					if err == nil {
						for n := q.Size(); n > 0; n-- {
							q.Dequeue()
						}
					}
				}},
			},
			sanity: func(i any) {
				t := i.(*trie.Trie[string, int])
				t.Put("zz", 1)
				_, _ = t.Get("zz")
				_ = t.Size()
				t.Keys()
				t.StartsWith("z")
			},
		},
		{
			name: "Queue",
			mk: func(n int) any {
				q := queue.New[int]()
				fill(n, func(v int) { q.Enqueue(v) })
				return q
			},
			methods: []method{
				{"Enqueue", func(i any, a int) { i.(*queue.Queue[int]).Enqueue(a%4 + 1) }},
				{"Dequeue", func(i any, a int) { _, _ = i.(*queue.Queue[int]).Dequeue() }},
				{"Peek", func(i any, a int) { _ = i.(*queue.Queue[int]).Peek() }},
				{"Search", func(i any, a int) { _ = i.(*queue.Queue[int]).Search(a%4 + 1) }},
				{"Size", func(i any, a int) { _ = i.(*queue.Queue[int]).Size() }},
				{"Clear", func(i any, a int) { i.(*queue.Queue[int]).Clear() }},
			},
			sanity: func(i any) {
				q := i.(*queue.Queue[int])
				q.Enqueue(9)
				_ = q.Peek()
				_ = q.Search(9)
				_, _ = q.Dequeue()
				_ = q.Size()
				q.Clear()
			},
		},
		{
			name: "LQueue",
			mk: func(n int) any {
				q := queue.NewLinked(1)
				switch n {
				case 0:
					q.Dequeue()
				case 3:
					q.Enqueue(2)
					q.Enqueue(3)
				}
				return q
			},
			methods: []method{
				{"Enqueue", func(i any, a int) { i.(*queue.LQueue[int]).Enqueue(a%4 + 1) }},
				{"Dequeue", func(i any, a int) { _ = i.(*queue.LQueue[int]).Dequeue() }},
				{"Peek", func(i any, a int) { _ = i.(*queue.LQueue[int]).Peek() }},
				{"Search", func(i any, a int) { _ = i.(*queue.LQueue[int]).Search(a%4 + 1) }},
				{"Size", func(i any, a int) { _ = i.(*queue.LQueue[int]).Size() }},
				{"Clear", func(i any, a int) { i.(*queue.LQueue[int]).Clear() }},
			},
			sanity: func(i any) {
				q := i.(*queue.LQueue[int])
				q.Enqueue(9)
				_ = q.Peek()
				_ = q.Search(9)
				_ = q.Dequeue()
				_ = q.Size()
				q.Clear()
			},
		},
		{
			name: "Stack",
			mk: func(n int) any {
				s := stack.New[int]()
				fill(n, func(v int) { s.Push(v) })
				return s
			},
			methods: []method{
				{"Push", func(i any, a int) { i.(*stack.Stack[int]).Push(a%4 + 1) }},
				{"Pop", func(i any, a int) { _ = i.(*stack.Stack[int]).Pop() }},
				{"Peek", func(i any, a int) { _ = i.(*stack.Stack[int]).Peek() }},
				{"Search", func(i any, a int) { _ = i.(*stack.Stack[int]).Search(a%4 + 1) }},
				{"Size", func(i any, a int) { _ = i.(*stack.Stack[int]).Size() }},
			},
			sanity: func(i any) {
				s := i.(*stack.Stack[int])
				s.Push(9)
				_ = s.Peek()
				_ = s.Search(9)
				_ = s.Pop()
				_ = s.Size()
			},
		},
		{
			name: "LStack",
			mk: func(n int) any {
				s := stack.NewLinked(1)
				switch n {
				case 0:
					s.Pop()
				case 3:
					s.Push(2)
					s.Push(3)
				}
				return s
			},
			methods: []method{
				{"Push", func(i any, a int) { i.(*stack.LStack[int]).Push(a%4 + 1) }},
				{"Pop", func(i any, a int) { _ = i.(*stack.LStack[int]).Pop() }},
				{"Peek", func(i any, a int) { _ = i.(*stack.LStack[int]).Peek() }},
				{"Search", func(i any, a int) { _ = i.(*stack.LStack[int]).Search(a%4 + 1) }},
				{"Size", func(i any, a int) { _ = i.(*stack.LStack[int]).Size() }},
			},
			sanity: func(i any) {
				s := i.(*stack.LStack[int])
				s.Push(9)
				_ = s.Peek()
				_ = s.Search(9)
				_ = s.Pop()
				_ = s.Size()
			},
		},
		cacheType("Cache", 0),
		cacheType("Cache+janitor", 150*time.Microsecond),
	}
}

func cacheType(name string, cleanup time.Duration) ctype {
	type C = cache.Cache[string, int]
	return ctype{
		name: name,
		mk: func(n int) any {
			c := cache.New[string, int](time.Millisecond, cleanup)
			for j, k := range keys[:n] {
				d := cache.NoExpiration
				if j == 1 {
					d = 300 * time.Microsecond // expires during the scenario: work for DeleteExpired/the janitor
				}
				c.Set(k, j, d)
			}
			return c
		},
		methods: []method{
			{"Set", func(i any, a int) { _ = i.(*C).Set(keys[a%4], a, cache.NoExpiration) }},
			{"SetDefault", func(i any, a int) { _ = i.(*C).SetDefault(keys[a%4], a) }},
			{"Get+Val", func(i any, a int) {
				if it, err := i.(*C).Get(keys[a%4]); err == nil {
					_ = it.Val()
				}
			}},
			{"Update", func(i any, a int) { _ = i.(*C).Update(keys[a%4], a, 200*time.Microsecond) }},
			{"Delete", func(i any, a int) { _ = i.(*C).Delete(keys[a%4]) }},
			{"DeleteExpired", func(i any, a int) { _ = i.(*C).DeleteExpired() }},
			{"Flush", func(i any, a int) { i.(*C).Flush() }},
			{"List+iterate", func(i any, a int) {
				s := 0
				for k, it := range i.(*C).List() {
					s += len(k) + it.Val()
				}
				_ = s
			}},
			{"Count", func(i any, a int) { _ = i.(*C).Count() }},
			{"MapToCache", func(i any, a int) {
				_ = i.(*C).MapToCache(map[string]int{keys[a%4]: a, "m": 1}, cache.DefaultExpiration)
			}},
			{"IsExpired", func(i any, a int) { _ = i.(*C).IsExpired(keys[a%4]) }},
		},
		sanity: func(i any) {
			c := i.(*C)
			_ = c.Update("zz", 1, cache.NoExpiration)
			_, _ = c.Get("zz")
			_ = c.Count()
			_ = c.Delete("zz")
			c.Flush()
		},
		stop: func(i any) { i.(*C).VerifStopCleanup() },
	}
}

// ---------------------------------------------------------------- scenario execution

type Scenario struct {
	Type    string   `json:"type"`
	Methods []string `json:"methods"` // one per worker
	State   int      `json:"state"`
	Calls   int      `json:"calls_per_worker,omitempty"` // long mixes: each worker runs this many random methods
}

func (s Scenario) name() string {
	if s.Calls > 0 {
		return fmt.Sprintf("%s/mix-%dx%d/%d", s.Type, len(s.Methods), s.Calls, s.State)
	}
	return fmt.Sprintf("%s/%s/%d", s.Type, strings.Join(s.Methods, "||"), s.State)
}

type outcome struct {
	panicked any
	deadlock bool
	at       string
}

func findType(name string) *ctype {
	for _, t := range types() {
		if t.name == name {
			tt := t
			return &tt
		}
	}
	return nil
}

func (t *ctype) method(name string) *method {
	for i := range t.methods {
		if t.methods[i].name == name {
			return &t.methods[i]
		}
	}
	return nil
}

// runOnce executes the scenario once on a fresh instance; returns per-worker outcomes and the sanity outcome.
func runOnce(t *ctype, sc Scenario, rng *core.Rand, tracked bool) (outs []outcome, sanity outcome, sig uint64) {
	// The registry is reset BEFORE the instance is made: making it may start a goroutine of the
	// library (the cache's cleanup goroutine) that takes the instance lock at once, and a reset
	// that wiped the record of that hold made the holder invisible to the deadlock verdict (one
	// false "deadlock:Cache+janitor" in roughly 1 700 quick runs' worth of scenarios).
	if tracked {
		vsync.BeginScenario(rng.Uint64(), true)
	}
	inst := t.mk(sc.State)
	n := len(sc.Methods)
	outs = make([]outcome, n)
	start := make(chan struct{})
	var wg sync.WaitGroup
	order := make([]int, n)
	for i := range order {
		order[i] = i
	}
	for i := n - 1; i > 0; i-- { // randomised creation order (= both start orders for pairs)
		j := rng.Intn(i + 1)
		order[i], order[j] = order[j], order[i]
	}
	seeds := make([]uint64, n)
	for i := range seeds {
		seeds[i] = rng.Uint64()
	}
	for _, wi := range order {
		wg.Add(1)
		go func(wi int) {
			defer wg.Done()
			if tracked {
				vsync.Register(wi)
				defer vsync.Done()
			}
			lr := core.NewRand(seeds[wi])
			<-start
			calls := 1
			if sc.Calls > 0 {
				calls = sc.Calls
			}
			for k := 0; k < calls; k++ {
				m := t.method(sc.Methods[wi])
				if sc.Calls > 0 {
					m = &t.methods[lr.Intn(len(t.methods))]
				}
				arg := lr.Intn(64)
				if p := core.Catch(func() { m.call(inst, arg) }); p != nil {
					if p == vsync.Deadlock {
						outs[wi] = outcome{deadlock: true, at: m.name}
					} else {
						outs[wi] = outcome{panicked: p, at: m.name}
					}
					return
				}
			}
		}(wi)
	}
	close(start)
	wg.Wait()
	// post-scenario usability
	done := make(chan struct{})
	go func() {
		defer close(done)
		if tracked {
			vsync.Register(100)
			defer vsync.Done()
		}
		if p := core.Catch(func() { t.sanity(inst) }); p != nil {
			if p == vsync.Deadlock {
				sanity = outcome{deadlock: true, at: "sanity"}
			} else {
				sanity = outcome{panicked: p, at: "sanity"}
			}
		}
	}()
	<-done
	if t.stop != nil && !sanity.deadlock {
		core.Catch(func() { t.stop(inst) })
	}
	if tracked {
		res := vsync.EndScenario()
		sig = res.Signature
	}
	return
}

// sequentialPanics reports whether some sequential order of the scenario's calls panics too
// (then the panic is a sequential matter, judged by C03-C09, not by C01).
func sequentialPanics(t *ctype, sc Scenario) bool {
	if sc.Calls > 0 {
		return false
	}
	n := len(sc.Methods)
	perm := make([]int, n)
	for i := range perm {
		perm[i] = i
	}
	found := false
	var rec func(k int)
	rec = func(k int) {
		if found {
			return
		}
		if k == n {
			inst := t.mk(sc.State)
			for _, wi := range perm {
				m := t.method(sc.Methods[wi])
				for arg := 0; arg < 4; arg++ {
					if p := core.Catch(func() { m.call(inst, arg) }); p != nil {
						found = true
						return
					}
				}
			}
			if t.stop != nil {
				core.Catch(func() { t.stop(inst) })
			}
			return
		}
		for i := k; i < n; i++ {
			perm[k], perm[i] = perm[i], perm[k]
			rec(k + 1)
			perm[k], perm[i] = perm[i], perm[k]
		}
	}
	rec(0)
	return found
}

func TestProp(t *testing.T) {
	r := core.Start(t, "C01")
	defer r.Finish()
	mode := os.Getenv("VERIF_SHIM_MODE")
	tracked := mode == "tracked"
	if tracked {
		vsync.SetMode(vsync.ModeTracked)
	} else {
		vsync.SetMode(vsync.ModeJitter)
	}
	r.Rule("scenario = fresh instance of a lock-guarded container in a named initial state (0, 1 or 3 elements) + 2 (thorough: also 3, and long random mixes of 4-8 workers x 50 calls) goroutines released together in randomised order, each executing one public method (wrappers also read what the method hands back); race-jitter variant: -race build with yields/µs-sleeps injected at every lock boundary by the sync shim (no shared state), race reports attributed to the sub-test and reduced to the pair of outermost library frames; tracked variant: TryLock-based shim with acquisition log, logical deadlock verdict, post-scenario usability sequence, panics charged only if no sequential order of the same calls panics; non-trivial = every scenario (two calls on one shared instance); distinct = (variant, type, methods, state)")

	all := types()
	si, sn := r.Shard()
	variant := os.Getenv("VERIF_VARIANT")
	w := r.NewWorker(variant)
	defer r.Done(w)
	reps := r.Pick(20, 200)
	if tracked {
		reps = r.Pick(40, 300)
	}
	rng := r.Rand("c01-" + variant + fmt.Sprint(si))
	sigs := map[uint64]struct{}{}

	var only *Scenario
	if o := r.Only(); o != nil {
		var c struct {
			Subtest string   `json:"subtest"`
			Sc      Scenario `json:"scenario"`
		}
		json.Unmarshal(o.Case, &c)
		if c.Sc.Type != "" {
			only = &c.Sc
		} else if c.Subtest != "" {
			// "TestProp/Type/A||B/state"
			parts := strings.Split(strings.TrimPrefix(c.Subtest, "TestProp/"), "/")
			if len(parts) == 3 {
				var st int
				fmt.Sscanf(parts[2], "%d", &st)
				only = &Scenario{Type: strings.ReplaceAll(parts[0], "_", " "), Methods: strings.Split(parts[1], "||"), State: st}
			}
		}
		if only == nil {
			return
		}
		reps *= 10
	}

	runScenario := func(ct *ctype, sc Scenario) {
		t.Run(sc.name(), func(t *testing.T) {
			w.Begin(map[string]any{"scenario": sc, "variant": variant}, true)
			for rep := 0; rep < reps; rep++ {
				w.Tick()
				outs, san, sg := runOnce(ct, sc, rng, tracked)
				if tracked {
					sigs[sg] = struct{}{}
				}
				for wi, o := range outs {
					switch {
					case o.deadlock:
						w.Violation("deadlock:"+ct.name+"."+o.at, fmt.Sprintf("%s: worker %d blocked forever in %s (logical deadlock verdict: every live worker was in a failing acquire loop and every lock holder was finished or stuck) while the workers ran %v", sc.name(), wi, o.at, sc.Methods))
					case o.panicked != nil:
						if sequentialPanics(ct, sc) {
							w.Count("panics_also_seen_sequentially", 1)
						} else {
							w.Violation("panic-under-concurrency:"+ct.name+"."+o.at+":"+core.TrimPanic(o.panicked), fmt.Sprintf("%s: worker %d panicked in %s: %v — no sequential order of the same calls panics", sc.name(), wi, o.at, o.panicked))
						}
					}
				}
				if san.deadlock {
					w.Violation("instance-unusable-afterwards:"+ct.name, fmt.Sprintf("%s: after the scenario the usability sequence blocked forever (a lock was leaked)", sc.name()))
					break
				}
				if san.panicked != nil {
					anyPanic := false
					for _, o := range outs {
						if o.panicked != nil {
							anyPanic = true
						}
					}
					if !anyPanic && !sequentialPanics(ct, sc) {
						w.Violation("usability-sequence-panicked:"+ct.name+":"+core.TrimPanic(san.panicked), fmt.Sprintf("%s: the usability sequence after the scenario panicked: %v", sc.name(), san.panicked))
					}
				}
			}
			w.NonTrivial(core.HashString(variant + sc.name()))
			w.Count("scenario_executions", int64(reps))
			if w.WantSample() {
				w.Sample(map[string]any{"scenario": sc.name(), "variant": variant, "repetitions": reps})
			}
		})
	}

	for ti := range all {
		ct := &all[ti]
		if only != nil {
			if ct.name == only.Type {
				runScenario(ct, *only)
			}
			continue
		}
		if ti%sn != si {
			continue
		}
		for a := 0; a < len(ct.methods); a++ {
			for b := a; b < len(ct.methods); b++ {
				for _, st := range []int{0, 1, 3} {
					runScenario(ct, Scenario{Type: ct.name, Methods: []string{ct.methods[a].name, ct.methods[b].name}, State: st})
				}
			}
		}
		if !r.Quick() {
			// triples over a reduced table (every third method + the mutators) and long random mixes
			var red []string
			for i, m := range ct.methods {
				if i%2 == 0 || strings.Contains("Push Pop Delete Put Upsert Enqueue Dequeue Set Update Clear Flush", m.name) {
					red = append(red, m.name)
				}
			}
			if len(red) > 6 {
				red = red[:6]
			}
			for a := 0; a < len(red); a++ {
				for b := a; b < len(red); b++ {
					for c := b; c < len(red); c++ {
						runScenario(ct, Scenario{Type: ct.name, Methods: []string{red[a], red[b], red[c]}, State: 1})
					}
				}
			}
		}
		mixes := r.Pick(2, 12)
		for k := 0; k < mixes; k++ {
			nw := 4 + k%5
			ms := make([]string, nw)
			for i := range ms {
				ms[i] = "mix"
			}
			runScenario(ct, Scenario{Type: ct.name, Methods: ms, State: []int{0, 1, 3}[k%3], Calls: r.Pick(25, 50)})
		}
	}
	if tracked {
		r.Extra("distinct_lock_acquisition_orders_seen", float64(len(sigs)))
	}
	r.Extra("gomaxprocs_"+variant, fmt.Sprint(runtime.GOMAXPROCS(0)))
}
