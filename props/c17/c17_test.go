// C17 — Memoize runs one computation per key at a time and serves the cached
// value (DESIGN §4 C17). Oracle: in-callback monitor (per-key in-flight counter,
// execution log with virtual timestamps) + caller-side log, inside
// testing/synctest bubbles, built with -race.
package c17

import (
	"errors"
	"fmt"
	"runtime"
	"sync"
	"sync/atomic"
	"testing"
	"testing/synctest"
	"time"

	"github.com/esimov/gogu"
	"github.com/esimov/gogu/cache"

	"verif/internal/core"
	"verif/internal/seq"
)

// ---- concurrent cases

type Caller struct {
	Key     int `json:"key"`
	StartUs int `json:"start_us"` // virtual offset of the call
}

type Case struct {
	Callers   []Caller `json:"callers"`
	LatencyUs int      `json:"latency_us"`
	Outcome   string   `json:"outcome"` // value | error | error-then-value | item+error | item+error-then-value
	ExpMs     int      `json:"exp_ms"`  // 0: never expires
	Cleanup   bool     `json:"cleanup,omitempty"`
	Rep       int      `json:"rep,omitempty"`
}

type exec struct {
	id         int
	key        int
	trigger    int // caller whose closure ran
	start, end time.Duration
	val        int
	err        error
}

type callRec struct {
	start, ret time.Duration
	val        int
	hasVal     bool
	err        error
}

func run(w *core.Worker, c Case) {
	var viol, detail string
	var vmu sync.Mutex
	fail := func(sig, format string, a ...any) {
		vmu.Lock()
		if viol == "" {
			viol, detail = "memoize."+sig, fmt.Sprintf(format, a...)
		}
		vmu.Unlock()
	}
	maxInFlight := int32(0)
	nExec := 0
	p := core.Catch(func() {
		synctest.Test(w.R.T.(*testing.T), func(t *testing.T) {
			exp := time.Duration(c.ExpMs) * time.Millisecond
			var cl time.Duration
			if c.Cleanup {
				cl = 3*time.Millisecond + 700*time.Nanosecond
			}
			m := gogu.NewMemoizer[string, int](exp, cl)
			defer m.Cache.VerifStopCleanup()
			mint := cache.New[string, int](cache.NoExpiration, 0)
			t0 := time.Now()
			lat := time.Duration(c.LatencyUs) * time.Microsecond

			var mu sync.Mutex
			var execs []*exec
			inflight := make([]atomic.Int32, 8)
			perKeyRuns := make([]int, 8)
			calls := make([]callRec, len(c.Callers))

			var wg sync.WaitGroup
			for i, cl := range c.Callers {
				wg.Add(1)
				go func(i int, cl Caller) {
					defer wg.Done()
					time.Sleep(time.Duration(cl.StartUs) * time.Microsecond)
					key := fmt.Sprintf("k%d", cl.Key)
					fn := func() (*cache.Item[int], error) {
						n := inflight[cl.Key].Add(1)
						for {
							old := atomic.LoadInt32(&maxInFlight)
							if n <= old || atomic.CompareAndSwapInt32(&maxInFlight, old, n) {
								break
							}
						}
						if n > 1 {
							fail("two-executions-in-flight", "key %s: %d executions of the function in progress at t=+%v", key, n, time.Since(t0))
						}
						mu.Lock()
						e := &exec{id: len(execs) + 1, key: cl.Key, trigger: i, start: time.Since(t0)}
						execs = append(execs, e)
						perKeyRuns[cl.Key]++
						nth := perKeyRuns[cl.Key]
						mu.Unlock()
						if lat > 0 {
							time.Sleep(lat)
						}
						var it *cache.Item[int]
						var err error
						failing := c.Outcome == "error" || c.Outcome == "item+error" || ((c.Outcome == "error-then-value" || c.Outcome == "item+error-then-value") && nth == 1)
						if failing {
							err = fmt.Errorf("exec %d failed", e.id)
							if c.Outcome == "item+error" || c.Outcome == "item+error-then-value" {
								// a failure that still hands back an item ("last known value"): it is an
								// error result all the same and must not be cached
								mk := fmt.Sprintf("mintfail%d", e.id)
								mint.Update(mk, -(cl.Key*1000 + e.id), cache.NoExpiration)
								it, _ = mint.Get(mk)
							}
						} else {
							val := cl.Key*1000 + e.id
							mk := fmt.Sprintf("mint%d", e.id)
							mint.Update(mk, val, cache.NoExpiration)
							it, _ = mint.Get(mk)
							mu.Lock()
							e.val = val
							mu.Unlock()
						}
						mu.Lock()
						e.err = err
						e.end = time.Since(t0)
						mu.Unlock()
						inflight[cl.Key].Add(-1)
						return it, err
					}
					r := callRec{start: time.Since(t0)}
					it, err := m.Memoize(key, fn)
					r.ret = time.Since(t0)
					r.err = err
					if it != nil {
						r.val, r.hasVal = it.Val(), true
					}
					calls[i] = r
				}(i, cl)
			}
			wg.Wait()
			synctest.Wait()
			nExec = len(execs)

			byVal := map[int]*exec{}
			for _, e := range execs {
				if e.err == nil {
					byVal[e.val] = e
				}
			}
			for i, r := range calls {
				key := c.Callers[i].Key
				switch {
				case r.err != nil:
					var src *exec
					for _, e := range execs {
						if e.err != nil && errors.Is(r.err, e.err) {
							src = e
						}
					}
					if src == nil || src.key != key {
						fail("foreign-error", "caller %d (key k%d) got the error %v which no execution for that key produced", i, key, r.err)
						return
					}
					if src.end < r.start {
						fail("error-served-from-cache", "caller %d (key k%d) began at +%v and got the error of execution %d which had ended at +%v: errors must not be cached", i, key, r.start, src.id, src.end)
						return
					}
					if src.end > r.ret {
						fail("result-from-the-future", "caller %d returned at +%v with the result of execution %d ending at +%v", i, r.ret, src.id, src.end)
						return
					}
				case r.hasVal:
					src := byVal[r.val]
					if src == nil || src.key != key {
						fail("foreign-value", "caller %d (key k%d) got %d which no execution for that key produced", i, key, r.val)
						return
					}
					if src.end > r.ret {
						fail("result-from-the-future", "caller %d returned at +%v with the value of execution %d ending at +%v", i, r.ret, src.id, src.end)
						return
					}
					if src.end < r.start && exp > 0 && r.start > src.end+exp {
						fail("stale-value-after-expiry", "caller %d began at +%v and got the value of execution %d cached at +%v although it expired at +%v", i, r.start, src.id, src.end, src.end+exp)
						return
					}
				default:
					fail("no-result", "caller %d (key k%d) got neither a value nor an error", i, key)
					return
				}
			}
			// definitely-live intervals of the cache per key, reconstructed from the successful
			// executions in the order they ended: an execution's value is stored only if no live
			// value exists at that instant (SetDefault refuses otherwise). A coincidence of an end
			// with a deadline is ambiguous: no further intervals are claimed for that key.
			type iv struct {
				from, to time.Duration // to == 0: never expires
				by       int
			}
			liveIv := map[int][]iv{}
			{
				done := append([]*exec(nil), execs...)
				for i := 1; i < len(done); i++ {
					for j := i; j > 0 && done[j].end < done[j-1].end; j-- {
						done[j], done[j-1] = done[j-1], done[j]
					}
				}
				unknown := map[int]bool{}
				sameEnd := map[[2]int64]int{}
				for _, e := range done {
					if e.err == nil {
						sameEnd[[2]int64{int64(e.key), int64(e.end)}]++
					}
				}
				for _, e := range done {
					if e.err != nil || unknown[e.key] {
						continue
					}
					if sameEnd[[2]int64{int64(e.key), int64(e.end)}] > 1 {
						unknown[e.key] = true // two values produced at the same instant: which one is stored is open
						continue
					}
					ivs := liveIv[e.key]
					if n := len(ivs); n > 0 {
						last := ivs[n-1]
						if last.to == 0 || e.end < last.to {
							continue // a live value exists: this one is not stored
						}
						if e.end == last.to {
							unknown[e.key] = true
							continue
						}
					}
					nv := iv{from: e.end, by: e.id}
					if exp > 0 {
						nv.to = e.end + exp
					}
					liveIv[e.key] = append(ivs, nv)
				}
			}
			for _, e := range execs {
				tr := calls[e.trigger]
				// (d) no execution started by a call that began while a value for the key was definitely cached and live
				for _, v := range liveIv[e.key] {
					if v.by != e.id && v.from < tr.start && (v.to == 0 || tr.start < v.to) {
						fail("recomputed-although-cached", "key k%d: execution %d was started by caller %d whose call began at +%v, while the value cached by execution %d at +%v was live (expiry +%v, 0 = never)", e.key, e.id, e.trigger, tr.start, v.by, v.from, v.to)
						return
					}
				}
				// (f) a trigger that had to wait although no execution of ITS key was in flight
				if e.start > tr.start {
					blocked := false
					for _, o := range execs {
						if o != e && o.key == e.key && o.start <= e.start && o.end >= tr.start {
							blocked = true
						}
					}
					if !blocked {
						fail("blocked-by-another-key", "key k%d: caller %d called at +%v but its function only started at +%v with no execution of that key in flight meanwhile", e.key, e.trigger, tr.start, e.start)
						return
					}
				}
			}
			// (g) a caller served from the cache or joining an execution must not wait beyond the end of same-key work
			for i, r := range calls {
				if r.ret > r.start {
					key := c.Callers[i].Key
					var lastEnd time.Duration
					for _, e := range execs {
						if e.key == key && e.start <= r.ret && e.end >= r.start && e.end > lastEnd {
							lastEnd = e.end
						}
					}
					if r.ret > lastEnd {
						fail("caller-delayed", "caller %d (key k%d) called at +%v and returned at +%v, but the last overlapping execution of its key ended at +%v", i, key, r.start, r.ret, lastEnd)
						return
					}
				}
			}
		})
	})
	if p != nil && viol == "" {
		viol, detail = "memoize.panic", fmt.Sprintf("panicked: %v", p)
	}
	if viol != "" {
		w.Violation(viol, detail)
		return
	}
	if len(c.Callers) >= 2 {
		cc := c
		cc.Rep = 0
		w.NonTrivial(core.HashString(core.JSON(cc)) ^ uint64(runtime.GOMAXPROCS(0))*0x9e3779b97f4a7c15)
	}
	w.Count("executions_of_the_function", int64(nExec))
	w.Count("callers", int64(len(c.Callers)))
	if nExec < len(c.Callers) {
		w.Count("cases_with_shared_or_cached_results", 1)
	}
	if w.WantSample() && len(c.Callers) >= 4 && nExec >= 2 {
		w.Sample(map[string]any{"case": c, "executions": nExec, "max_in_flight_per_key": maxInFlight})
	}
}

// ---- sequential call patterns against an exact model

type SOp struct {
	K   string `json:"op"` // call adv
	Key int    `json:"key,omitempty"`
	Err bool   `json:"err,omitempty"`
	Itm bool   `json:"item_with_error,omitempty"` // the failing function also returns an item
	Adv string `json:"adv,omitempty"` // small before after
}

type SeqCase struct {
	ExpMs     int   `json:"exp_ms"`
	LatencyUs int   `json:"latency_us"`
	Ops       []SOp `json:"ops"`
}

func runSeq(w *core.Worker, c SeqCase) {
	var viol, detail string
	fail := func(sig, format string, a ...any) {
		if viol == "" {
			viol, detail = "memoize.seq-"+sig, fmt.Sprintf(format, a...)
		}
	}
	hits := 0
	p := core.Catch(func() {
		synctest.Test(w.R.T.(*testing.T), func(t *testing.T) {
			exp := time.Duration(c.ExpMs) * time.Millisecond
			lat := time.Duration(c.LatencyUs) * time.Microsecond
			m := gogu.NewMemoizer[string, int](exp, 0)
			mint := cache.New[string, int](cache.NoExpiration, 0)
			type ent struct {
				val      int
				deadline time.Time // zero: never
			}
			model := map[int]ent{}
			runs := 0
			for i, op := range c.Ops {
				if op.K == "adv" {
					var next time.Time
					for _, e := range model {
						if !e.deadline.IsZero() && e.deadline.After(time.Now()) && (next.IsZero() || e.deadline.Before(next)) {
							next = e.deadline
						}
					}
					dt := time.Millisecond
					if !next.IsZero() {
						switch op.Adv {
						case "before":
							if d := time.Until(next) - 1; d > 0 {
								dt = d
							}
						case "after":
							dt = time.Until(next) + 1
						}
					}
					time.Sleep(dt)
					continue
				}
				now := time.Now()
				e, ok := model[op.Key]
				liveHit := ok && (e.deadline.IsZero() || now.Before(e.deadline))
				atBoundary := ok && !e.deadline.IsZero() && now.Equal(e.deadline)
				before := runs
				val := op.Key*1000 + i + 1
				it, err := m.Memoize(fmt.Sprintf("k%d", op.Key), func() (*cache.Item[int], error) {
					runs++
					if lat > 0 {
						time.Sleep(lat)
					}
					if op.Err {
						if op.Itm {
							mk := fmt.Sprintf("mintfail%d", i)
							mint.Update(mk, -val, cache.NoExpiration)
							x, _ := mint.Get(mk)
							return x, fmt.Errorf("step %d failed", i)
						}
						return nil, fmt.Errorf("step %d failed", i)
					}
					mk := fmt.Sprintf("mint%d", i)
					mint.Update(mk, val, cache.NoExpiration)
					x, _ := mint.Get(mk)
					return x, nil
				})
				ran := runs - before
				switch {
				case atBoundary:
					if ran == 0 {
						liveHit = true
					}
				case liveHit && ran != 0:
					fail("recomputed-although-cached", "step %d: Memoize(k%d) invoked the function although %d is cached until %v (now %v)", i, op.Key, e.val, e.deadline, now)
					return
				case !liveHit && ran != 1:
					fail("not-computed", "step %d: Memoize(k%d) ran the function %d times with no live cached value", i, op.Key, ran)
					return
				}
				if liveHit && ran == 0 {
					hits++
					if err != nil || it == nil || it.Val() != e.val {
						fail("cached-value", "step %d: Memoize(k%d) returned (%v,%v), cached value %d", i, op.Key, it, err, e.val)
						return
					}
					continue
				}
				if op.Err {
					if err == nil {
						fail("error-lost", "step %d: the function failed but Memoize(k%d) returned (%v,nil)", i, op.Key, it)
						return
					}
					continue // not cached
				}
				if err != nil || it == nil || it.Val() != val {
					fail("computed-value", "step %d: Memoize(k%d) returned (%v,%v), the function produced %d", i, op.Key, it, err, val)
					return
				}
				ne := ent{val: val}
				if exp > 0 {
					ne.deadline = time.Now().Add(exp)
				}
				model[op.Key] = ne
				if got, gerr := m.Cache.Get(fmt.Sprintf("k%d", op.Key)); gerr != nil || got.Val() != val {
					fail("not-cached", "step %d: after a successful Memoize(k%d) Cache.Get gives (%v,%v)", i, op.Key, got, gerr)
					return
				}
			}
		})
	})
	if p != nil && viol == "" {
		viol, detail = "memoize.seq-panic", fmt.Sprintf("panicked: %v", p)
	}
	if viol != "" {
		w.Violation(viol, detail)
		return
	}
	if hits > 0 {
		w.NonTrivial(core.HashString(core.JSON(c)))
	}
}


// ---- values of interface type, incl. a nil that is the legitimate result

type AnyCase struct {
	Vals  []string `json:"vals"` // per key: "nil" | "zero" | "str" | "ptr"
	Calls int      `json:"calls"`
	ExpMs int      `json:"exp_ms"`
}

func runAny(w *core.Worker, c AnyCase) {
	var viol, detail string
	p := core.Catch(func() {
		synctest.Test(w.R.T.(*testing.T), func(t *testing.T) {
			m := gogu.NewMemoizer[string, any](time.Duration(c.ExpMs)*time.Millisecond, 0)
			mint := cache.New[string, any](cache.NoExpiration, 0)
			for ki, kind := range c.Vals {
				key := fmt.Sprintf("k%d", ki)
				var val any
				switch kind {
				case "zero":
					val = 0
				case "str":
					val = "v" + key
				case "ptr":
					val = (*int)(nil)
				}
				runs := 0
				for i := 1; i <= c.Calls; i++ {
					it, err := m.Memoize(key, func() (*cache.Item[any], error) {
						runs++
						mint.Update(key, val, cache.NoExpiration)
						x, _ := mint.Get(key)
						return x, nil
					})
					if err != nil || it == nil || it.Val() != val {
						viol, detail = "memoize.any-value", fmt.Sprintf("Memoizer[string,any]: call %d for a function whose result is %s returned (%v, %v)", i, kind, it, err)
						return
					}
					if runs != 1 {
						viol, detail = "memoize.any-recomputed-although-cached", fmt.Sprintf("Memoizer[string,any]: after %d calls the function whose successful result is %s has run %d times (expiry %dms, no time passed)", i, kind, runs, c.ExpMs)
						return
					}
					time.Sleep(time.Microsecond)
				}
			}
		})
	})
	if p != nil && viol == "" {
		viol, detail = "memoize.any-panic", fmt.Sprintf("panicked: %v", p)
	}
	if viol != "" {
		w.Violation(viol, detail)
		return
	}
	if c.Calls >= 2 {
		w.NonTrivial(core.HashString(core.JSON(c)))
	}
}

func TestProp(t *testing.T) {
	r := core.Start(t, "C17")
	defer r.Finish()
	r.Rule("memo-concurrent: 1..16 goroutines calling Memoize on 1..3 keys inside a testing/synctest bubble (-race build) with function latency {0, 10ms, 1s virtual}, outcomes {value, error, error-then-value, item+error, item+error-then-value}, staggered starts, expiry {never, 25ms}; the supplied function counts executions in flight per key and logs (trigger, start, end, result) with virtual timestamps; checked: never 2 in flight per key, every result produced by a same-key execution that finished before the caller returned (errors only from overlapping executions, values not after their expiry), no execution triggered by a call that began after a live value was cached, no waiting on another key; each distinct case is repeated for schedule diversity (distinct = (case without the repetition index, GOMAXPROCS); non-trivial = >= 2 callers) || memo-any: Memoizer[string,any] whose function succeeds with nil / 0 / a string / a typed nil pointer: computed once, served from the cache afterwards || memo-sequential: every call/advance pattern up to length 5 against an exact cache model (non-trivial = at least one cache hit)")

	reps := r.Pick(12, 120)
	core.Monitor(r, "memo-concurrent", 0, func(emit func(Case)) {
		rng := r.Rand("c17-conc")
		for _, n := range []int{1, 2, 4, 8, 16} {
			for _, keys := range []int{1, 2, 3} {
				for _, lat := range []int{0, 10000, 1000000} {
					for _, out := range []string{"value", "error", "error-then-value", "item+error", "item+error-then-value"} {
						for _, exp := range []int{0, 25} {
							for stag := 0; stag < 4; stag++ {
								for rep := 0; rep < reps; rep++ {
									c := Case{LatencyUs: lat, Outcome: out, ExpMs: exp, Rep: rep, Cleanup: rep%5 == 4}
									for i := 0; i < n; i++ {
										st := 0
										switch stag {
										case 1:
											st = i * lat / 2
										case 2:
											st = i * (2*lat + 1000)
										case 3:
											st = rng.Intn(3*lat + 50000)
										}
										c.Callers = append(c.Callers, Caller{Key: (i + rep) % keys, StartUs: st})
									}
									emit(c)
								}
							}
						}
					}
				}
			}
		}
	}, run)

	core.Monitor(r, "memo-sequential", 0, func(emit func(SeqCase)) {
		alpha := []SOp{{K: "call", Key: 0}, {K: "call", Key: 0, Err: true}, {K: "call", Key: 0, Err: true, Itm: true}, {K: "call", Key: 1}, {K: "adv", Adv: "before"}, {K: "adv", Adv: "after"}, {K: "adv", Adv: "small"}}
		var n int64
		for _, exp := range []int{0, 50} {
			for _, lat := range []int{0, 10000} {
				n += seq.Enum(alpha, r.Pick(5, 6), func(ops []SOp) { emit(SeqCase{ExpMs: exp, LatencyUs: lat, Ops: ops}) })
			}
		}
		r.Exhaustive(fmt.Sprintf("all sequential patterns of length<=%d over {call a ok, call a failing, call a failing with an item next to the error, call b ok, advance to 1ns before expiry, to 1ns after expiry, by 1ms} x expiry {never, 50ms} x latency {0, 10ms}", r.Pick(5, 6)), n)
	}, runSeq)

	core.Monitor(r, "memo-any", 0, func(emit func(AnyCase)) {
		kinds := []string{"nil", "zero", "str", "ptr"}
		for _, a := range kinds {
			for _, b := range kinds {
				for calls := 1; calls <= 4; calls++ {
					for _, exp := range []int{0, 50} {
						emit(AnyCase{Vals: []string{a, b}, Calls: calls, ExpMs: exp})
					}
				}
			}
		}
	}, runAny)
}
