// C14 — map helpers select, transform and invert entries exactly (DESIGN §4 C14).
// Oracle: differential + defining-property checkers; unspecified order/choice is
// compared as a set or by the defining property, and every case is executed
// several times on freshly built maps so that Go's randomised iteration order is sampled.
package c14

import (
	"math"
	"fmt"
	"reflect"
	"sort"
	"testing"

	"github.com/esimov/gogu"

	"verif/internal/core"
	"verif/internal/seq"
)

type Case struct {
	Fn   string                      `json:"fn"`
	M    map[string]int              `json:"m,omitempty"`
	Keys []string                    `json:"keys,omitempty"`
	Pred string                      `json:"pred,omitempty"`
	V    int                         `json:"v,omitempty"`
	Coll []map[string]int            `json:"coll,omitempty"`
	C2   []map[string]map[string]int `json:"coll2d,omitempty"`
	S1   []string                    `json:"s1,omitempty"`
	S2   []int                       `json:"s2,omitempty"`
}

func vpred(name string) func(int) bool {
	switch name {
	case "true":
		return func(int) bool { return true }
	case "eq0":
		return func(v int) bool { return v == 0 }
	case "eq1":
		return func(v int) bool { return v == 1 }
	case "ge1":
		return func(v int) bool { return v >= 1 }
	}
	return func(int) bool { return false }
}

var vpreds = []string{"false", "true", "eq0", "eq1", "ge1"}

// fresh builds a new map with the same entries inserted in a rotated order.
func fresh(m map[string]int, rot int) map[string]int {
	ks := make([]string, 0, len(m))
	for k := range m {
		ks = append(ks, k)
	}
	sort.Strings(ks)
	out := make(map[string]int)
	for i := range ks {
		k := ks[(i+rot)%len(ks)]
		out[k] = m[k]
	}
	return out
}

func sortedInts(s []int) []int {
	o := append([]int{}, s...)
	sort.Ints(o)
	return o
}

func sortedStrs(s []string) []string {
	o := append([]string{}, s...)
	sort.Strings(o)
	return o
}

func inList(ks []string, k string) bool {
	for _, x := range ks {
		if x == k {
			return true
		}
	}
	return false
}

const reps = 4

// withSpare re-houses s with extra slots of spare capacity behind its length, filled with fill
// (a helper that consults cap where it means len, or reslices past the length, becomes observable).
func withSpare[T any](s []T, extra int, fill T) []T {
	if extra == 0 {
		return s
	}
	out := make([]T, len(s), len(s)+extra)
	copy(out, s)
	for i, rest := 0, out[len(out):cap(out)]; i < len(rest); i++ {
		rest[i] = fill
	}
	return out
}

func run(w *core.Worker, c Case) {
	fail := func(sig, format string, a ...any) { w.Violation("c14."+c.Fn+"."+sig, fmt.Sprintf(format, a...)) }
	nontrivial := len(c.M) >= 2 || len(c.Coll) >= 2 || len(c.C2) >= 1 || len(c.S1) >= 2
	expectPanic := false
	for rep := 0; rep < reps; rep++ {
		bad := false
		p := core.Catch(func() {
			m := fresh(c.M, rep)
			orig := fresh(c.M, 0)
			pr := vpred(c.Pred)
			switch c.Fn {
			case "KeysValues":
				ks := gogu.Keys(m)
				var wk []string
				var wv []int
				for k, v := range orig {
					wk = append(wk, k)
					wv = append(wv, v)
				}
				if !reflect.DeepEqual(sortedStrs(ks), sortedStrs(wk)) {
					fail("Keys", "Keys(%v)=%v", orig, ks)
					bad = true
				}
				if vs := gogu.Values(m); !reflect.DeepEqual(sortedInts(vs), sortedInts(wv)) {
					fail("Values", "Values(%v)=%v", orig, vs)
					bad = true
				}
				mc := gogu.MapCollection(m, func(v int) int { return v*10 + 1 })
				var wmc []int
				for _, v := range wv {
					wmc = append(wmc, v*10+1)
				}
				if !reflect.DeepEqual(sortedInts(mc), sortedInts(wmc)) {
					fail("MapCollection", "MapCollection(%v, 10v+1)=%v", orig, mc)
					bad = true
				}
				mv := gogu.MapValues(m, func(v int) string { return fmt.Sprint("v", v) })
				if len(mv) != len(orig) {
					fail("MapValues", "MapValues(%v)=%v", orig, mv)
					bad = true
				}
				for k, v := range orig {
					if mv[k] != fmt.Sprint("v", v) {
						fail("MapValues", "MapValues(%v)=%v", orig, mv)
						bad = true
						break
					}
				}
			case "MapKeys":
				// injective and colliding key transformations
				inj := gogu.MapKeys(m, func(k string, v int) string { return k + "!" })
				if len(inj) != len(orig) {
					fail("injective", "MapKeys(%v, k+!)=%v", orig, inj)
					bad = true
				}
				for k, v := range orig {
					if got, ok := inj[k+"!"]; !ok || got != v {
						fail("injective", "MapKeys(%v, k+!)=%v", orig, inj)
						bad = true
						break
					}
				}
				col := gogu.MapKeys(m, func(k string, v int) int { return v % 2 })
				imgs := map[int][]int{}
				for _, v := range orig {
					imgs[v%2] = append(imgs[v%2], v)
				}
				if len(col) != len(imgs) {
					fail("colliding", "MapKeys(%v, v%%2)=%v", orig, col)
					bad = true
				}
				for r, v := range col {
					ok := false
					for _, x := range imgs[r] {
						if x == v {
							ok = true
						}
					}
					if !ok {
						fail("colliding", "MapKeys(%v, v%%2)=%v: key %d holds %d which no entry with that image has", orig, col, r, v)
						bad = true
						break
					}
				}
			case "Quant":
				all, some, cont := true, false, false
				for _, v := range orig {
					if pr(v) {
						some = true
					} else {
						all = false
					}
					if v == c.V {
						cont = true
					}
				}
				if got := gogu.MapEvery(m, pr); got != all {
					fail("MapEvery", "MapEvery(%v,%s)=%v", orig, c.Pred, got)
					bad = true
				}
				if got := gogu.MapSome(m, pr); got != some {
					fail("MapSome", "MapSome(%v,%s)=%v", orig, c.Pred, got)
					bad = true
				}
				if got := gogu.MapContains(m, c.V); got != cont {
					fail("MapContains", "MapContains(%v,%d)=%v", orig, c.V, got)
					bad = true
				}
			case "MapUnique":
				got := gogu.MapUnique(m)
				seen := map[int]bool{}
				for k, v := range got {
					if ov, ok := orig[k]; !ok || ov != v {
						fail("foreign-entry", "MapUnique(%v)=%v", orig, got)
						bad = true
						return
					}
					if seen[v] {
						fail("value-repeated", "MapUnique(%v)=%v", orig, got)
						bad = true
						return
					}
					seen[v] = true
				}
				for _, v := range orig {
					if !seen[v] {
						fail("value-lost", "MapUnique(%v)=%v", orig, got)
						bad = true
						return
					}
				}
			case "Find":
				got := gogu.Find(m, pr)
				ks := make([]string, 0)
				for k, v := range orig {
					if pr(v) {
						ks = append(ks, k)
					}
				}
				sort.Strings(ks)
				want := map[string]int{}
				if len(ks) > 0 {
					want[ks[0]] = orig[ks[0]]
				}
				if !reflect.DeepEqual(got, want) {
					fail("result", "Find(%v,%s)=%v want %v", orig, c.Pred, got, want)
					bad = true
				}
				fk := gogu.FindKey(m, pr)
				if len(ks) == 0 {
					if fk != "" {
						fail("FindKey", "FindKey(%v,%s)=%q although nothing qualifies", orig, c.Pred, fk)
						bad = true
					}
				} else if !inList(ks, fk) {
					fail("FindKey", "FindKey(%v,%s)=%q, qualifying keys %v", orig, c.Pred, fk, ks)
					bad = true
				}
			case "FindByKey":
				kp := func(k string) bool { return inList(c.Keys, k) }
				got := gogu.FindByKey(m, kp)
				nq := 0
				for k := range orig {
					if kp(k) {
						nq++
					}
				}
				if nq == 0 && len(got) != 0 || nq > 0 && len(got) != 1 {
					fail("result", "FindByKey(%v, key in %v)=%v", orig, c.Keys, got)
					bad = true
				}
				for k, v := range got {
					if ov, ok := orig[k]; !ok || ov != v || !kp(k) {
						fail("result", "FindByKey(%v, key in %v)=%v", orig, c.Keys, got)
						bad = true
					}
				}
			case "Invert":
				got := gogu.Invert(m)
				vals := map[int]bool{}
				for _, v := range orig {
					vals[v] = true
				}
				if len(got) != len(vals) {
					fail("result", "Invert(%v)=%v", orig, got)
					bad = true
				}
				for v, k := range got {
					if ov, ok := orig[k]; !ok || ov != v {
						fail("result", "Invert(%v)=%v: %d maps to %q which did not hold it", orig, got, v, k)
						bad = true
						break
					}
				}
			case "PickOmit":
				keys := withSpare(c.Keys, rep%3, "a") // the spread key list carries spare capacity in the later repetitions
				picked, err := gogu.Pick(m, keys...)
				om := fresh(c.M, rep+1)
				omitted := gogu.Omit(om, keys...)
				if len(c.Keys) == 0 {
					if len(picked) != 0 {
						fail("Pick", "Pick(%v) with no keys = %v, %v", orig, picked, err)
						bad = true
					}
					picked = map[string]int{}
				} else if err != nil {
					fail("Pick-error", "Pick(%v,%v) error %v", orig, c.Keys, err)
					bad = true
				}
				checkSplit(fail, &bad, "Pick/Omit", orig, picked, omitted, func(k string, v int) bool { return inList(c.Keys, k) }, fmt.Sprint(c.Keys))
			case "PickOmitBy":
				f := func(k string, v int) bool { return pr(v) != (k == "a") } // depends on key and value
				picked := gogu.PickBy(m, f)
				omitted := gogu.OmitBy(fresh(c.M, rep+1), f)
				checkSplit(fail, &bad, "PickBy/OmitBy", orig, picked, omitted, f, c.Pred+" xor key==a")
				fm := gogu.FilterMap(m, pr)
				want := map[string]int{}
				for k, v := range orig {
					if pr(v) {
						want[k] = v
					}
				}
				if !reflect.DeepEqual(fm, want) {
					fail("FilterMap", "FilterMap(%v,%s)=%v want %v", orig, c.Pred, fm, want)
					bad = true
				}
			case "Pluck":
				coll := withSpare(make([]map[string]int, len(c.Coll)), rep%3, map[string]int{"a": 77})
				for i, x := range c.Coll {
					coll[i] = fresh(x, rep)
				}
				got := gogu.Pluck(coll, "a")
				want := []int{}
				for _, x := range c.Coll {
					if v, ok := x["a"]; ok {
						want = append(want, v)
					}
				}
				if !reflect.DeepEqual(append([]int{}, got...), want) {
					fail("result", "Pluck(%v, a)=%v want %v", c.Coll, got, want)
					bad = true
				}
			case "FilterColl":
				coll := withSpare(make([]map[string]int, len(c.Coll)), rep%3, map[string]int{"a": 1, "b": 2})
				for i, x := range c.Coll {
					coll[i] = fresh(x, rep)
				}
				got := gogu.FilterMapCollection(coll, pr)
				var want []int // indices kept
				for i, x := range c.Coll {
					for _, v := range x {
						if pr(v) {
							want = append(want, i)
							break
						}
					}
				}
				if len(got) != len(want) {
					sig := "result"
					if len(got) > len(want) {
						sig = "map-repeated"
					}
					fail(sig, "FilterMapCollection(%v,%s) kept %d maps %v, want the maps at %v once each", c.Coll, c.Pred, len(got), got, want)
					bad = true
					return
				}
				for j, i := range want {
					if !reflect.DeepEqual(got[j], c.Coll[i]) {
						fail("result", "FilterMapCollection(%v,%s)=%v want the maps at %v", c.Coll, c.Pred, got, want)
						bad = true
						return
					}
				}
				// PartitionMap: non-empty maps routed by the predicate, order preserved
				mp := func(x map[string]int) bool { _, ok := x["a"]; return ok }
				pg := gogu.PartitionMap(coll, mp)
				var y, n []map[string]int
				for _, x := range c.Coll {
					if len(x) == 0 {
						continue
					}
					if mp(x) {
						y = append(y, x)
					} else {
						n = append(n, x)
					}
				}
				if !sameMaps(pg[0], y) || !sameMaps(pg[1], n) {
					fail("PartitionMap", "PartitionMap(%v, has key a)=%v want [%v %v]", c.Coll, pg, y, n)
					bad = true
				}
			case "Filter2D":
				got := gogu.Filter2DMapCollection(withSpare(c.C2, rep%3, map[string]map[string]int{"x": {"a": 1}}), func(x map[string]int) bool { _, ok := x["a"]; return ok })
				var want []int
				for i, x := range c.C2 {
					for _, inner := range x {
						if _, ok := inner["a"]; ok {
							want = append(want, i)
							break
						}
					}
				}
				if len(got) != len(want) {
					sig := "result"
					if len(got) > len(want) {
						sig = "map-repeated"
					}
					fail(sig, "Filter2DMapCollection(%v, has key a) kept %d maps, want those at %v once each", c.C2, len(got), want)
					bad = true
					return
				}
				for j, i := range want {
					if !reflect.DeepEqual(got[j], c.C2[i]) {
						fail("result", "Filter2DMapCollection(%v)=%v want those at %v", c.C2, got, want)
						bad = true
						return
					}
				}
			case "SliceToMap":
				if len(c.S1) != len(c.S2) {
					expectPanic = true
				}
				// equal lengths, unequal capacities in the later repetitions
				got := gogu.SliceToMap(withSpare(c.S1, rep%3, "zz"), withSpare(c.S2, (rep/2)*3, -5))
				if expectPanic {
					fail("unequal-accepted", "SliceToMap(%v,%v)=%v: unequal lengths must be rejected", c.S1, c.S2, got)
					bad = true
					return
				}
				want := map[string]int{}
				for i := range c.S1 {
					want[c.S1[i]] = c.S2[i]
				}
				if !reflect.DeepEqual(got, want) {
					fail("result", "SliceToMap(%v,%v)=%v want %v", c.S1, c.S2, got, want)
					bad = true
				}
			case "FloatKeys":
				// maps keyed by float64 incl. NaN keys (every NaN key is its own entry and cannot be
				// looked up again): entries are compared as multisets of (is-NaN-key, key, value)
				fm := map[float64]int{}
				nNaN := c.V % 4
				for i := 0; i < nNaN; i++ {
					fm[math.NaN()] = 10 + i%2 // values may repeat
				}
				for k, v := range c.M {
					fm[float64(len(k))+float64(v)/4] = v
				}
				type ent struct {
					nan bool
					k   float64
					v   int
				}
				ents := func(m map[float64]int) []ent {
					var o []ent
					for k, v := range m {
						if k != k {
							o = append(o, ent{true, 0, v})
						} else {
							o = append(o, ent{false, k, v})
						}
					}
					sort.Slice(o, func(i, j int) bool {
						if o[i].nan != o[j].nan {
							return o[i].nan
						}
						if o[i].k != o[j].k {
							return o[i].k < o[j].k
						}
						return o[i].v < o[j].v
					})
					return o
				}
				all := ents(fm)
				var yes, no []ent
				for _, e := range all {
					if pr(e.v) {
						yes = append(yes, e)
					} else {
						no = append(no, e)
					}
				}
				same := func(a, b []ent) bool { return len(a) == len(b) && (len(a) == 0 || reflect.DeepEqual(a, b)) }
				if got := ents(gogu.FilterMap(fm, pr)); !same(got, yes) {
					fail("FilterMap", "FilterMap(%v, %s) has entries %v want %v", fm, c.Pred, got, yes)
					bad = true
				}
				if got := ents(gogu.PickBy(fm, func(k float64, v int) bool { return pr(v) })); !same(got, yes) {
					fail("PickBy", "PickBy(%v, %s) has entries %v want %v", fm, c.Pred, got, yes)
					bad = true
				}
				if got := ents(gogu.MapValues(fm, func(v int) int { return v })); !same(got, all) {
					fail("MapValues", "MapValues(%v, id) has entries %v want %v", fm, got, all)
					bad = true
				}
				if ks, vs := gogu.Keys(fm), gogu.Values(fm); len(ks) != len(all) || len(vs) != len(all) {
					fail("KeysValues", "Keys/Values(%v) have %d/%d elements want %d", fm, len(ks), len(vs), len(all))
					bad = true
				}
				if got := gogu.MapSome(fm, pr); got != (len(yes) > 0) {
					fail("MapSome", "MapSome(%v, %s)=%v", fm, c.Pred, got)
					bad = true
				}
				if got := gogu.MapEvery(fm, pr); got != (len(no) == 0) {
					fail("MapEvery", "MapEvery(%v, %s)=%v", fm, c.Pred, got)
					bad = true
				}
				// OmitBy works in place: run it last, on the map itself. Not with NaN keys: Go's delete
				// cannot remove a NaN-keyed entry, so no in-place implementation could comply.
				if nNaN > 0 {
					return
				}
				if got := ents(gogu.OmitBy(fm, func(k float64, v int) bool { return pr(v) })); !same(got, no) {
					fail("OmitBy", "OmitBy(..., %s) left entries %v want %v", c.Pred, got, no)
					bad = true
				}
			default:
				panic("unknown fn " + c.Fn)
			}
		})
		if p != nil && !expectPanic {
			fail("panic", "%s on %s panicked: %v", c.Fn, core.JSON(c), p)
			return
		}
		if bad {
			return
		}
	}
	w.Count("calls:"+c.Fn, reps)
	if nontrivial {
		w.NonTrivial(core.HashString(core.JSON(c)))
	}
	if w.WantSample() && nontrivial {
		w.Sample(c)
	}
}

func sameMaps(a, b []map[string]int) bool {
	if len(a) != len(b) {
		return false
	}
	for i := range a {
		if !reflect.DeepEqual(a[i], b[i]) {
			return false
		}
	}
	return true
}

func checkSplit(fail func(string, string, ...any), bad *bool, what string, orig, picked, omitted map[string]int, qual func(string, int) bool, desc string) {
	for k, v := range orig {
		pv, inP := picked[k]
		ov, inO := omitted[k]
		if inP == inO {
			fail("not-a-partition", "%s(%v, %s): key %q is in picked=%v and in omitted=%v (picked %v, omitted %v)", what, orig, desc, k, inP, inO, picked, omitted)
			*bad = true
			return
		}
		if inP != qual(k, v) || (inP && pv != v) || (inO && ov != v) {
			fail("wrong-side", "%s(%v, %s): picked %v, omitted %v", what, orig, desc, picked, omitted)
			*bad = true
			return
		}
	}
	if len(picked)+len(omitted) != len(orig) {
		fail("extra-entries", "%s(%v, %s): picked %v, omitted %v", what, orig, desc, picked, omitted)
		*bad = true
	}
}

func allMaps(keys []string, vals []int, maxEntries int) []map[string]int {
	var out []map[string]int
	var rec func(i int, cur map[string]int)
	rec = func(i int, cur map[string]int) {
		if i == len(keys) {
			cp := map[string]int{}
			for k, v := range cur {
				cp[k] = v
			}
			out = append(out, cp)
			return
		}
		rec(i+1, cur)
		if len(cur) < maxEntries {
			for _, v := range vals {
				cur[keys[i]] = v
				rec(i+1, cur)
				delete(cur, keys[i])
			}
		}
	}
	rec(0, map[string]int{})
	return out
}

func TestProp(t *testing.T) {
	r := core.Start(t, "C14")
	defer r.Finish()
	r.Rule("cases = one call group of the map helpers, each executed 4 times on freshly built maps (iteration orders sampled): Keys/Values/MapCollection as multisets, MapValues, MapKeys (injective and colliding), MapEvery/MapSome/MapContains, MapUnique, Find (smallest qualifying key)/FindKey/FindByKey (some qualifying entry), Invert, Pick+Omit and PickBy+OmitBy as a partition of the original, FilterMap, Pluck, FilterMapCollection/Filter2DMapCollection (each qualifying map once, in order), PartitionMap, SliceToMap; FilterMap/PickBy/OmitBy/MapValues/Keys/Values/MapSome/MapEvery also on float64-keyed maps holding 0-3 NaN keys (entries compared as multisets); non-trivial = a map with >= 2 entries resp. a collection with >= 2 maps; distinct by hash of the case")

	keys := []string{"", "a", "b", "c"} // incl. the zero key
	core.Monitor(r, "map-sweep", 0, func(emit func(Case)) {
		ms := allMaps(keys, []int{0, 1, 2}, r.Pick(3, 4))
		var keyLists [][]string
		keyLists = append(keyLists, []string{})
		seq.Enum([]string{"", "a", "b", "z"}, 3, func(k []string) { keyLists = append(keyLists, k) })
		for _, m := range ms {
			emit(Case{Fn: "KeysValues", M: m})
			for v := 0; v < 4; v++ {
				for _, pn := range []string{"true", "false", "eq1", "ge1"} {
					emit(Case{Fn: "FloatKeys", M: m, Pred: pn, V: v})
				}
			}
			emit(Case{Fn: "MapKeys", M: m})
			emit(Case{Fn: "MapUnique", M: m})
			emit(Case{Fn: "Invert", M: m})
			for _, p := range vpreds {
				emit(Case{Fn: "Find", M: m, Pred: p})
				emit(Case{Fn: "PickOmitBy", M: m, Pred: p})
				for v := 0; v <= 3; v++ {
					emit(Case{Fn: "Quant", M: m, Pred: p, V: v})
				}
			}
			for _, kl := range keyLists {
				emit(Case{Fn: "PickOmit", M: m, Keys: kl})
				if len(kl) <= 2 {
					emit(Case{Fn: "FindByKey", M: m, Keys: kl})
				}
			}
		}
		r.Exhaustive(fmt.Sprintf("all maps with <=%d entries over 4 keys x 3 values x (5 value predicates, probes 0..3, all key lists of length<=3 over {a,b,c,absent})", r.Pick(3, 4)), int64(len(ms)))
		pool := []map[string]int{{}, {"a": 0}, {"a": 1}, {"b": 1}, {"a": 1, "b": 1}, {"a": 0, "b": 1, "c": 1}, {"c": 2}, {"a": 2, "c": 0}}
		var nc int64
		emit(Case{Fn: "Pluck", Coll: []map[string]int{}})
		seq.Enum([]int{0, 1, 2, 3, 4, 5, 6, 7}, r.Pick(3, 4), func(ix []int) {
			coll := make([]map[string]int, len(ix))
			for i, j := range ix {
				coll[i] = pool[j]
			}
			emit(Case{Fn: "Pluck", Coll: coll})
			for _, p := range vpreds {
				emit(Case{Fn: "FilterColl", Coll: coll, Pred: p})
			}
			nc++
		})
		r.Exhaustive(fmt.Sprintf("Pluck/FilterMapCollection(5 predicates)/PartitionMap on all collections of <=%d maps from a pool of 8 (incl. the empty map and maps with several qualifying values)", r.Pick(3, 4)), nc)
		pool2 := []map[string]map[string]int{{}, {"x": {"a": 1}}, {"x": {"b": 1}}, {"x": {"a": 1}, "y": {"a": 2}}, {"x": {"a": 1}, "y": {"b": 2}, "z": {"a": 0}}, {"x": {}}}
		seq.Enum([]int{0, 1, 2, 3, 4, 5}, 3, func(ix []int) {
			coll := make([]map[string]map[string]int, len(ix))
			for i, j := range ix {
				coll[i] = pool2[j]
			}
			emit(Case{Fn: "Filter2D", C2: coll})
		})
		for _, s1 := range [][]string{{}, {"a"}, {"a", "b"}, {"a", "a"}, {"a", "b", "a"}, {"b", "b", "b"}} {
			for n := 0; n <= 4; n++ {
				s2 := make([]int, n)
				for i := range s2 {
					s2[i] = i + 1
				}
				emit(Case{Fn: "SliceToMap", S1: s1, S2: s2})
			}
		}
	}, run)

	nRand := r.Pick(10000, 100000)
	core.Monitor(r, "map-random", 0, func(emit func(Case)) {
		rng := r.Rand("c14-random")
		ks := []string{"a", "b", "c", "d", "e", "f", "g", "h", "i", "j"}
		rm := func(max int) map[string]int {
			m := map[string]int{}
			for n := rng.Intn(max + 1); n > 0; n-- {
				m[ks[rng.Intn(len(ks))]] = rng.Intn(4)
			}
			return m
		}
		fns := []string{"KeysValues", "MapKeys", "MapUnique", "Invert", "Find", "PickOmitBy", "Quant", "PickOmit", "FindByKey", "Pluck", "FilterColl"}
		for i := 0; i < nRand; i++ {
			fn := fns[rng.Intn(len(fns))]
			c := Case{Fn: fn, M: rm(9), Pred: vpreds[rng.Intn(len(vpreds))], V: rng.Intn(5)}
			for n := rng.Intn(5); n > 0; n-- {
				c.Keys = append(c.Keys, ks[rng.Intn(len(ks))])
			}
			if fn == "Pluck" || fn == "FilterColl" {
				c.M = nil
				c.Coll = []map[string]int{}
				for n := rng.Intn(7); n > 0; n-- {
					c.Coll = append(c.Coll, rm(4))
				}
			}
			emit(c)
		}
	}, run)
}
