// C11 — set-algebra slice helpers return exact set results in first-occurrence
// order (DESIGN §4 C11). Oracle: differential against independent quadratic
// references + defining-property checkers where order/choice is unspecified.
package c11

import (
	"fmt"
	"strconv"
	"testing"

	"github.com/esimov/gogu"

	"verif/internal/core"
	"verif/internal/seq"
)

type Case struct {
	Fn   string  `json:"fn"`
	T    string  `json:"t"`             // int | string | float
	Key  string  `json:"key,omitempty"` // id mod2 const inc
	S    [][]int `json:"s,omitempty"`   // slice arguments
	Vals []int   `json:"vals,omitempty"`
	Nest *Nest   `json:"nest,omitempty"`
}

// Nest describes one node of a Union argument.
type Nest struct {
	Leaf *int   `json:"leaf,omitempty"` // a bare T
	Ints []int  `json:"ints,omitempty"` // a typed []T
	IsT  bool   `json:"is_ts,omitempty"`
	Kids []Nest `json:"kids,omitempty"` // a []any
	IsK  bool   `json:"is_anys,omitempty"`
	Bad  string `json:"bad,omitempty"` // malformed leaf: wrongtype | wrongslice | nil
}

func keyFn(name string) func(int) int {
	switch name {
	case "mod2":
		return func(x int) int { return ((x % 2) + 2) % 2 }
	case "const":
		return func(int) int { return 7 }
	case "inc":
		return func(x int) int { return x + 1 }
	}
	return func(x int) int { return x }
}

// ---- references (quadratic, no maps)

func has[T comparable](s []T, v T) bool {
	for _, x := range s {
		if x == v {
			return true
		}
	}
	return false
}

func refUnique[T comparable](s []T) []T {
	out := []T{}
	for _, v := range s {
		if !has(out, v) {
			out = append(out, v)
		}
	}
	return out
}

func eq[T comparable](a, b []T) bool {
	if len(a) != len(b) {
		return false
	}
	for i := range a {
		if a[i] != b[i] {
			return false
		}
	}
	return true
}

func isSubsequence[T comparable](sub, s []T) bool {
	j := 0
	for _, v := range s {
		if j < len(sub) && sub[j] == v {
			j++
		}
	}
	return j == len(sub)
}

func count[T comparable](s []T, v T) int {
	n := 0
	for _, x := range s {
		if x == v {
			n++
		}
	}
	return n
}

func conv[T comparable](c Case) (func(int) T, func(T) int) {
	var z T
	var f func(int) T
	switch any(z).(type) {
	case int:
		f = func(i int) T { return any(i).(T) }
	case string:
		f = func(i int) T { return any("s" + strconv.Itoa(i)).(T) }
	case float64:
		f = func(i int) T { return any(float64(i) / 2).(T) }
	}
	inv := map[T]int{}
	for i := -3; i <= 64; i++ {
		inv[f(i)] = i
	}
	return f, func(t T) int { return inv[t] }
}

func mapS[T any](s []int, f func(int) T) []T {
	if s == nil {
		return nil
	}
	// two of three inputs carry spare capacity behind their length, filled with values of the same
	// domain (a helper consulting cap where it means len, or reslicing past the length, shows)
	h := uint64(len(s))
	for _, v := range s {
		h = h*31 + uint64(v)
	}
	out := make([]T, len(s), len(s)+int(h%3)*2)
	for i, v := range s {
		out[i] = f(v)
	}
	for i, rest := 0, out[len(out):cap(out)]; i < len(rest); i++ {
		if len(s) > 0 && i%2 == 0 {
			rest[i] = f(s[i%len(s)])
		} else {
			rest[i] = f(i + 1)
		}
	}
	return out
}

func runT[T comparable](w *core.Worker, c Case) {
	f, inv := conv[T](c)
	kf := keyFn(c.Key)
	fn := func(t T) T { return f(kf(inv(t))) }
	var ss [][]T
	for _, s := range c.S {
		ss = append(ss, mapS(s, f))
	}
	vals := mapS(c.Vals, f)
	fail := func(sig, format string, a ...any) { w.Violation("c11."+c.Fn+"."+sig, fmt.Sprintf(format, a...)) }
	nontrivial := false

	p := core.Catch(func() {
		switch c.Fn {
		case "Unique":
			got := gogu.Unique(ss[0])
			if want := refUnique(ss[0]); !eq(got, want) {
				fail("result", "Unique(%v)=%v want %v", ss[0], got, want)
			}
			nontrivial = len(refUnique(ss[0])) < len(ss[0])
		case "UniqueBy":
			got := gogu.UniqueBy(ss[0], fn)
			want := []T{}
			var imgs []T
			for _, v := range ss[0] {
				if !has(imgs, fn(v)) {
					imgs = append(imgs, fn(v))
					want = append(want, v)
				}
			}
			if !eq(got, want) {
				fail("result", "UniqueBy(%v,%s)=%v want %v", ss[0], c.Key, got, want)
			}
			nontrivial = len(want) < len(ss[0])
		case "Intersection":
			got := gogu.Intersection(ss...)
			want := []T{}
			for _, v := range ss[0] {
				if has(want, v) {
					continue
				}
				all := true
				for _, o := range ss[1:] {
					if !has(o, v) {
						all = false
					}
				}
				if all {
					want = append(want, v)
				}
			}
			if !eq(got, want) {
				fail("result", "Intersection(%v)=%v want %v", ss, got, want)
			}
			nontrivial = len(want) > 0 && len(want) < len(ss[0])
		case "IntersectionBy":
			got := gogu.IntersectionBy(fn, ss...)
			qual := func(x T) bool {
				for _, o := range ss[1:] {
					found := false
					for _, y := range o {
						if fn(y) == fn(x) {
							found = true
						}
					}
					if !found {
						return false
					}
				}
				return true
			}
			if !isSubsequence(got, ss[0]) {
				fail("not-subsequence", "IntersectionBy(%s,%v)=%v is not a subsequence of the first argument", c.Key, ss, got)
				return
			}
			for _, y := range got {
				if !qual(y) {
					fail("unqualified-kept", "IntersectionBy(%s,%v)=%v keeps %v whose image %v does not occur among the images of every other argument", c.Key, ss, got, y, fn(y))
					return
				}
			}
			nq := 0
			for _, x := range ss[0] {
				if !qual(x) {
					continue
				}
				nq++
				rep := false
				for _, y := range got {
					if fn(y) == fn(x) {
						rep = true
					}
				}
				if !rep {
					fail("qualifying-dropped", "IntersectionBy(%s,%v)=%v: element %v qualifies (image %v occurs in every other argument) but no kept element has that image", c.Key, ss, got, x, fn(x))
					return
				}
			}
			nontrivial = nq > 0 && nq < len(ss[0])
		case "Without":
			got := gogu.Without[T, T](ss[0], vals...)
			want := []T{}
			for _, v := range ss[0] {
				if !has(vals, v) && !has(want, v) {
					want = append(want, v)
				}
			}
			if !eq(got, want) {
				fail("result", "Without(%v, %v)=%v want %v", ss[0], vals, got, want)
			}
			nontrivial = len(want) > 0 && len(want) < len(ss[0])
		case "Difference":
			got := gogu.Difference(ss[0], ss[1])
			want := []T{}
			for _, v := range ss[0] {
				if !has(ss[1], v) && !has(want, v) {
					want = append(want, v)
				}
			}
			if !eq(got, want) {
				fail("result", "Difference(%v, %v)=%v want %v", ss[0], ss[1], got, want)
			}
			nontrivial = len(want) > 0 && len(want) < len(ss[0])
		case "DifferenceBy":
			got := gogu.DifferenceBy(ss[0], ss[1], fn)
			qual := func(x T) bool {
				for _, y := range ss[1] {
					if fn(y) == fn(x) {
						return false
					}
				}
				return true
			}
			if !isSubsequence(got, ss[0]) {
				fail("not-subsequence", "DifferenceBy(%v,%v,%s)=%v is not a subsequence of the first argument", ss[0], ss[1], c.Key, got)
				return
			}
			for _, y := range got {
				if !qual(y) {
					fail("unqualified-kept", "DifferenceBy(%v,%v,%s)=%v keeps %v whose image occurs among the images of the second argument", ss[0], ss[1], c.Key, got, y)
					return
				}
			}
			nq := 0
			for _, x := range ss[0] {
				if !qual(x) {
					continue
				}
				nq++
				rep := false
				for _, y := range got {
					if fn(y) == fn(x) {
						rep = true
					}
				}
				if !rep {
					fail("qualifying-dropped", "DifferenceBy(%v,%v,%s)=%v: element %v qualifies but no kept element has its image", ss[0], ss[1], c.Key, got, x)
					return
				}
			}
			nontrivial = nq > 0 && nq < len(ss[0])
		case "Duplicate":
			got := gogu.Duplicate(ss[0])
			for _, v := range got {
				if count(got, v) != 1 {
					fail("repeats", "Duplicate(%v)=%v repeats %v", ss[0], got, v)
					return
				}
				if count(ss[0], v) < 2 {
					fail("not-duplicated", "Duplicate(%v)=%v contains %v which occurs %d time(s)", ss[0], got, v, count(ss[0], v))
					return
				}
			}
			nd := 0
			for _, v := range refUnique(ss[0]) {
				if count(ss[0], v) >= 2 {
					nd++
					if !has(got, v) {
						fail("missing", "Duplicate(%v)=%v misses %v", ss[0], got, v)
						return
					}
				}
			}
			nontrivial = nd > 0
		case "DuplicateWithIndex":
			got := gogu.DuplicateWithIndex(ss[0])
			nd := 0
			for _, v := range refUnique(ss[0]) {
				first := -1
				for i, x := range ss[0] {
					if x == v {
						first = i
						break
					}
				}
				idx, ok := got[v]
				if count(ss[0], v) >= 2 {
					nd++
					if !ok || idx != first {
						fail("index", "DuplicateWithIndex(%v)=%v: %v should map to its first index %d", ss[0], got, v, first)
						return
					}
				} else if ok {
					fail("not-duplicated", "DuplicateWithIndex(%v)=%v contains the non-duplicated %v", ss[0], got, v)
					return
				}
			}
			if len(got) != nd {
				fail("extra", "DuplicateWithIndex(%v)=%v has %d entries, %d values are duplicated", ss[0], got, len(got), nd)
			}
			nontrivial = nd > 0
		case "Union":
			arg, bad := build[T](c.Nest, f)
			got, err := gogu.Union[T](arg)
			if bad {
				if err == nil {
					fail("malformed-accepted", "Union(%s) = (%v, nil): malformed nesting must yield an error", core.JSON(c.Nest), got)
				}
				nontrivial = true
				return
			}
			want := refUnique(mapS(flat(c.Nest), f))
			if err != nil || !eq(got, want) {
				fail("result", "Union(%s) = (%v, %v) want %v", core.JSON(c.Nest), got, err, want)
				return
			}
			// the same nesting with every typed leaf being a window of ONE backing array (each window
			// keeps the array's remaining capacity, as base[:2] does): same result, and the array intact
			total := 0
			var cnt func(n *Nest)
			cnt = func(n *Nest) {
				if n.IsT {
					total += len(n.Ints)
				}
				for i := range n.Kids {
					cnt(&n.Kids[i])
				}
			}
			cnt(c.Nest)
			if total >= 2 {
				arena := make([]T, 0, total)
				var ba func(n *Nest) any
				ba = func(n *Nest) any {
					switch {
					case n.Leaf != nil:
						return f(*n.Leaf)
					case n.IsT:
						off := len(arena)
						arena = append(arena, mapS(n.Ints, f)...)
						return arena[off:len(arena)] // capacity runs on into the later leaves
					}
					out := make([]any, 0, len(n.Kids))
					for i := range n.Kids {
						out = append(out, ba(&n.Kids[i]))
					}
					return out
				}
				arg2 := ba(c.Nest)
				snap := append([]T{}, arena...)
				got2, err2 := gogu.Union[T](arg2)
				if err2 != nil || !eq(got2, want) {
					fail("result-leaves-share-one-array", "Union(%s) with all typed leaves being windows of one array = (%v, %v) want %v", core.JSON(c.Nest), got2, err2, want)
					return
				}
				if !eq(arena, snap) {
					fail("leaves-overwritten", "Union(%s): the backing array shared by the leaves was %v, now %v", core.JSON(c.Nest), snap, arena)
					return
				}
			}
			nontrivial = len(flat(c.Nest)) >= 2
		default:
			panic("unknown fn " + c.Fn)
		}
	})
	if p != nil {
		fail("panic", "%s(%v %v) panicked: %v", c.Fn, ss, vals, p)
		return
	}
	if nontrivial {
		w.NonTrivial(core.HashString(core.JSON(c)))
	}
	w.Count("calls:"+c.Fn, 1)
	if w.WantSample() && nontrivial && (len(c.S) > 0 && len(c.S[0]) >= 3 || c.Nest != nil) {
		w.Sample(c)
	}
}

func flat(n *Nest) []int {
	switch {
	case n.Leaf != nil:
		return []int{*n.Leaf}
	case n.IsT:
		return append([]int{}, n.Ints...)
	case n.IsK:
		var out []int
		for i := range n.Kids {
			out = append(out, flat(&n.Kids[i])...)
		}
		return out
	}
	return nil
}

// build turns the description into the `any` handed to Union; bad = it contains a malformed node.
func build[T comparable](n *Nest, f func(int) T) (any, bool) {
	switch {
	case n.Bad == "wrongtype":
		var z T
		if _, isStr := any(z).(string); isStr {
			return 3.5, true
		}
		return "oops", true
	case n.Bad == "wrongslice":
		var z T
		if _, isStr := any(z).(string); isStr {
			return []float64{1}, true
		}
		return []string{"x"}, true
	case n.Bad == "nil":
		return nil, true
	case n.Leaf != nil:
		return f(*n.Leaf), false
	case n.IsT:
		return mapS(append([]int{}, n.Ints...), f), false
	case n.IsK:
		out := make([]any, 0, len(n.Kids))
		bad := false
		for i := range n.Kids {
			v, b := build(&n.Kids[i], f)
			out = append(out, v)
			bad = bad || b
		}
		return out, bad
	}
	return nil, true
}

func run(w *core.Worker, c Case) {
	switch c.T {
	case "string":
		runT[string](w, c)
	case "float":
		runT[float64](w, c)
	default:
		runT[int](w, c)
	}
}

// ---- generators

func allSlices(vals []int, maxLen int) [][]int {
	out := [][]int{{}}
	seq.Enum(vals, maxLen, func(s []int) { out = append(out, s) })
	return out
}

func leaf(v int) Nest { return Nest{Leaf: &v} }

// nestings enumerates Union arguments of the given depth over values 0..1 (bounded fan-out).
func nestings(depth int, withBad bool) []Nest {
	base := []Nest{leaf(0), leaf(1), {IsT: true, Ints: []int{}}, {IsT: true, Ints: []int{0}}, {IsT: true, Ints: []int{1, 0}}, {IsT: true, Ints: []int{1, 1}}}
	if withBad {
		base = append(base, Nest{Bad: "wrongtype"}, Nest{Bad: "wrongslice"}, Nest{Bad: "nil"})
	}
	if depth == 0 {
		return base
	}
	sub := nestings(depth-1, withBad)
	if len(sub) > 40 {
		// keep the family bounded: every 1-kid nesting, and a strided subset for 2 kids
		sub2 := sub[:0:0]
		for i, s := range sub {
			if i < 12 || i%7 == 0 {
				sub2 = append(sub2, s)
			}
		}
		sub = sub2
	}
	out := append([]Nest{}, base...)
	out = append(out, Nest{IsK: true, Kids: []Nest{}})
	for _, a := range sub {
		out = append(out, Nest{IsK: true, Kids: []Nest{a}})
	}
	for _, a := range sub {
		for _, b := range sub {
			out = append(out, Nest{IsK: true, Kids: []Nest{a, b}})
		}
	}
	return out
}


// FuzzSetAlgebra (thorough tier): coverage-guided fuzzing of the set-algebra helpers; the input is
// cut into 1-3 slices at every 0xff byte, values are bytes modulo a small or a large range.
func FuzzSetAlgebra(f *testing.F) {
	f.Add(uint8(0), uint8(0), []byte{1, 2, 1, 3, 2, 0xff, 2, 3, 0xff, 3})
	f.Add(uint8(3), uint8(5), []byte{7, 7, 9, 0xff, 9, 7})
	f.Fuzz(func(t *testing.T, fi, opt uint8, data []byte) {
		if len(data) > 700 {
			data = data[:700]
		}
		fns := []string{"Unique", "UniqueBy", "Intersection", "IntersectionBy", "Without", "Difference", "DifferenceBy", "Duplicate", "DuplicateWithIndex"}
		c := Case{Fn: fns[int(fi)%len(fns)], T: []string{"int", "string", "float"}[int(opt)%3], Key: []string{"id", "mod2", "const", "inc"}[int(opt/3)%4]}
		rv := []int{3, 20, 251}[int(opt/12)%3]
		cur := []int{}
		var parts [][]int
		for _, b := range data {
			if b == 0xff {
				parts = append(parts, cur)
				cur = []int{}
				continue
			}
			cur = append(cur, int(b)%rv)
		}
		parts = append(parts, cur)
		switch c.Fn {
		case "Intersection", "IntersectionBy":
			if len(parts) > 3 {
				parts = parts[:3]
			}
			c.S = parts
		case "Difference", "DifferenceBy":
			for len(parts) < 2 {
				parts = append(parts, []int{})
			}
			c.S = parts[:2]
		case "Without":
			c.S = parts[:1]
			if len(parts) > 1 {
				c.Vals = parts[1]
				if len(c.Vals) > 40 {
					c.Vals = c.Vals[:40]
				}
			}
		default:
			c.S = parts[:1]
		}
		w := core.Probe(func(sig, detail string) { t.Fatalf("VERIF-SIG %s\nVERIF-CASE %s\n%s", sig, core.JSON(c), detail) })
		run(w, c)
	})
}

func TestProp(t *testing.T) {
	r := core.Start(t, "C11")
	defer r.Finish()
	r.Rule("cases = one call of a set-algebra helper (Unique, UniqueBy, Union, Intersection(By), Difference(By), Without, Duplicate(WithIndex)) compared with an independent quadratic reference in first-occurrence order; Duplicate/DuplicateWithIndex as set/map; IntersectionBy/DifferenceBy by the lenient reading (subsequence of the first argument, only qualifying elements, every qualifying image represented); Union on malformed nesting must return an error; non-trivial = the result is a proper, non-empty selection (or the input has duplicates / the nesting has >= 2 leaves / is malformed); distinct by hash of the case")

	vals := []int{0, 1, 2}
	L := r.Pick(5, 6)
	keys := []string{"id", "mod2", "const", "inc"}
	core.Monitor(r, "setalg-sweep", 0, func(emit func(Case)) {
		big := allSlices(vals, L)
		small := allSlices(vals, r.Pick(3, 4))
		for _, s := range big {
			for _, fn := range []string{"Unique", "Duplicate", "DuplicateWithIndex"} {
				emit(Case{Fn: fn, T: "int", S: [][]int{s}})
			}
			for _, k := range keys {
				emit(Case{Fn: "UniqueBy", T: "int", Key: k, S: [][]int{s}})
			}
			emit(Case{Fn: "Intersection", T: "int", S: [][]int{s}})
			for _, v := range [][]int{{}, {0}, {1}, {2}, {0, 1}, {1, 2}, {0, 2}, {0, 1, 2}, {3}, {1, 1}} {
				emit(Case{Fn: "Without", T: "int", S: [][]int{s}, Vals: v})
			}
		}
		r.Exhaustive(fmt.Sprintf("Unique/UniqueBy(4 key fns)/Duplicate/DuplicateWithIndex/Intersection(1 arg)/Without(10 value lists) on all slices of length<=%d over {0,1,2}", L), int64(len(big)))
		mid := allSlices(vals, L-1)
		for _, a := range mid {
			for _, b := range small {
				emit(Case{Fn: "Intersection", T: "int", S: [][]int{a, b}})
				emit(Case{Fn: "Difference", T: "int", S: [][]int{a, b}})
				for _, k := range keys {
					emit(Case{Fn: "IntersectionBy", T: "int", Key: k, S: [][]int{a, b}})
					emit(Case{Fn: "DifferenceBy", T: "int", Key: k, S: [][]int{a, b}})
				}
			}
		}
		r.Exhaustive(fmt.Sprintf("Intersection/Difference/IntersectionBy/DifferenceBy(4 key fns) on all pairs (slice<=%d, slice<=%d) over {0,1,2}", L-1, r.Pick(3, 4)), int64(len(mid)*len(small)))
		for _, a := range small {
			for _, b := range small {
				for _, c := range small {
					emit(Case{Fn: "Intersection", T: "int", S: [][]int{a, b, c}})
					for _, k := range keys {
						emit(Case{Fn: "IntersectionBy", T: "int", Key: k, S: [][]int{a, b, c}})
					}
				}
			}
		}
		r.Exhaustive(fmt.Sprintf("Intersection/IntersectionBy on all triples of slices of length<=%d over {0,1,2}", r.Pick(3, 4)), int64(len(small)*len(small)*len(small)))
		ns := nestings(r.Pick(2, 3), true)
		for i := range ns {
			n := ns[i]
			emit(Case{Fn: "Union", T: "int", Nest: &n})
			if i%3 == 0 {
				emit(Case{Fn: "Union", T: "string", Nest: &n})
			}
		}
		r.Exhaustive("Union on a bounded family of nestings (bare values, typed slices, []any up to depth 3, incl. malformed leaves: wrong type, wrong slice type, nil)", int64(len(ns)))
	}, run)

	nRand := r.Pick(20000, 1000000)
	core.Monitor(r, "setalg-random", 0, func(emit func(Case)) {
		rng := r.Rand("c11-random")
		fns := []string{"Unique", "UniqueBy", "Intersection", "IntersectionBy", "Without", "Difference", "DifferenceBy", "Duplicate", "DuplicateWithIndex", "Union"}
		types := []string{"int", "string", "float"}
		rs := func(maxLen, rangeV int) []int {
			n := rng.Intn(maxLen + 1)
			s := make([]int, n)
			for i := range s {
				s[i] = rng.Intn(rangeV)
			}
			return s
		}
		var rn func(d int) Nest
		rn = func(d int) Nest {
			switch x := rng.Intn(10); {
			case x < 3 || d == 0:
				return leaf(rng.Intn(6))
			case x < 6:
				return Nest{IsT: true, Ints: rs(5, 6)}
			case x == 6 && rng.Chance(1, 3):
				return Nest{Bad: []string{"wrongtype", "wrongslice", "nil"}[rng.Intn(3)]}
			default:
				k := Nest{IsK: true, Kids: []Nest{}}
				for n := rng.Intn(4); n > 0; n-- {
					k.Kids = append(k.Kids, rn(d-1))
				}
				return k
			}
		}
		for i := 0; i < nRand; i++ {
			fn := fns[rng.Intn(len(fns))]
			rv := []int{3, 6, 20}[rng.Intn(3)]
			c := Case{Fn: fn, T: types[rng.Intn(3)], Key: keys[rng.Intn(4)]}
			if i%8 == 7 && fn != "Union" {
				// large inputs: tens to hundreds of distinct values, every one of them repeated later
				// (size thresholds at which an implementation may switch its strategy)
				rv = []int{18, 40, 130, 600, 2, 3}[rng.Intn(6)]
				big := func() []int {
					n := rng.Range(rv, 3*rv)
					if n > 400 {
						n = 400
					}
					if rv <= 3 { // few values, each repeated hundreds of times (counters that might wrap)
						n = rng.Range(250, 1100)
					}
					s := make([]int, n)
					for j := range s {
						s[j] = rng.Intn(rv)
					}
					if rng.Bool() { // a full second pass over the same values
						s = append(s, s[:len(s)/2]...)
					}
					return s
				}
				switch fn {
				case "Intersection", "IntersectionBy":
					for n := rng.Range(1, 3); n > 0; n-- {
						c.S = append(c.S, big())
					}
				case "Difference", "DifferenceBy":
					c.S = [][]int{big(), big()}
				case "Without":
					c.S = [][]int{big()}
					c.Vals = rs(40, rv)
				default:
					c.S = [][]int{big()}
				}
				emit(c)
				continue
			}
			switch fn {
			case "Union":
				n := rn(3)
				c.Nest = &n
			case "Intersection", "IntersectionBy":
				for n := rng.Range(1, 4); n > 0; n-- {
					c.S = append(c.S, rs(12, rv))
				}
			case "Difference", "DifferenceBy":
				c.S = [][]int{rs(14, rv), rs(10, rv)}
			case "Without":
				c.S = [][]int{rs(14, rv)}
				c.Vals = rs(5, rv)
			default:
				c.S = [][]int{rs(16, rv)}
			}
			emit(c)
		}
	}, run)
}
