// C18 — Before, After, Once and Retry invoke the callback exactly as often as
// promised (DESIGN §4 C18). Oracle: counting callbacks; RetryWithDelay in
// virtual time (testing/synctest) so that the spacing of attempts is exact.
package c18

import (
	"errors"
	"fmt"
	"testing"
	"testing/synctest"
	"time"

	"github.com/esimov/gogu"
	"github.com/esimov/gogu/cache"

	"verif/internal/core"
)

type Case struct {
	Fn      string `json:"fn"` // After Before Once Retry RetryWithDelay
	N       int    `json:"n"`
	Calls   int    `json:"calls,omitempty"`
	Pattern string `json:"pattern,omitempty"` // Retry: F = attempt fails, S = succeeds; attempts beyond the pattern succeed
	DelayMs int    `json:"delay_ms,omitempty"`
	DelayNs int    `json:"delay_ns,omitempty"` // RetryWithDelay: nanoseconds on top of DelayMs (delays that are no whole number of ms)
	Typ     string `json:"typ,omitempty"` // counter type for After/Before: int | int8 | int64
	First   int    `json:"first,omitempty"`   // Once: the callback's first result (0 = the zero value of the result type)
	WorkMs  []int  `json:"work_ms,omitempty"` // RetryWithDelay: virtual time attempt i spends inside the callback (cycled)
}

func run(w *core.Worker, c Case) {
	fail := func(sig, format string, a ...any) { w.Violation("c18."+c.Fn+"."+sig, fmt.Sprintf(format, a...)) }
	nontrivial := false
	p := core.Catch(func() {
		switch c.Fn {
		case "After":
			runs := 0
			var runsAt []int
			switch c.Typ {
			case "int8":
				n := int8(c.N)
				for i := 1; i <= c.Calls; i++ {
					b := runs
					gogu.After(&n, func() { runs++ })
					runsAt = append(runsAt, runs-b)
				}
			case "int64":
				n := int64(c.N)
				for i := 1; i <= c.Calls; i++ {
					b := runs
					gogu.After(&n, func() { runs++ })
					runsAt = append(runsAt, runs-b)
				}
			default:
				n := c.N
				for i := 1; i <= c.Calls; i++ {
					b := runs
					gogu.After(&n, func() { runs++ })
					runsAt = append(runsAt, runs-b)
				}
			}
			for i, r := range runsAt {
				want := 0
				if i+1 > c.N {
					want = 1
				}
				if r != want {
					fail("count", "After(n=%d): call %d ran the callback %d time(s), want %d (runs per call: %v)", c.N, i+1, r, want, runsAt)
					return
				}
			}
			nontrivial = c.Calls > c.N && c.N > 0
		case "Before":
			ch := cache.New[string, int](cache.DefaultExpiration, cache.NoExpiration)
			runs := 0
			last := 0
			var log []string
			step := func(i int, call func() int) bool {
				b := runs
				got := call()
				ran := runs - b
				wantRan := 0
				if i <= c.N {
					wantRan = 1
				}
				log = append(log, fmt.Sprintf("call%d:ran=%d,ret=%d", i, ran, got))
				if ran != wantRan {
					fail("count", "Before(n=%d): call %d ran the callback %d time(s), want %d (%v)", c.N, i, ran, wantRan, log)
					return false
				}
				if ran == 1 {
					last = runs * 10
				}
				if got != last {
					fail("value", "Before(n=%d): call %d returned %d, want the result of the last run %d (%v)", c.N, i, got, last, log)
					return false
				}
				return true
			}
			fn := func() int { runs++; return runs * 10 }
			switch c.Typ {
			case "int8":
				n := int8(c.N)
				for i := 1; i <= c.Calls; i++ {
					if !step(i, func() int { return gogu.Before[string, int](&n, ch, fn) }) {
						return
					}
				}
			default:
				n := c.N
				for i := 1; i <= c.Calls; i++ {
					if !step(i, func() int { return gogu.Before[string, int](&n, ch, fn) }) {
						return
					}
				}
			}
			nontrivial = c.Calls > c.N && c.N > 0
		case "Once":
			// The first result is c.First (0 = the zero value, which must be cached like any
			// other); a re-run would return something else, so both the counter and the value
			// expose it.
			ch := cache.New[string, int](cache.DefaultExpiration, cache.NoExpiration)
			runs := 0
			fn := func() int { runs++; return c.First + (runs-1)*10 }
			for i := 1; i <= c.Calls; i++ {
				got := gogu.Once[string, int, int](ch, fn)
				if runs != 1 {
					fail("count", "Once (first result %d): after call %d the callback has run %d times", c.First, i, runs)
					return
				}
				if got != c.First {
					fail("value", "Once: call %d returned %d, want the first result %d", i, got, c.First)
					return
				}
			}
			// bool results: false is the zero value
			cb := cache.New[string, bool](cache.DefaultExpiration, cache.NoExpiration)
			bruns := 0
			for i := 1; i <= c.Calls; i++ {
				got := gogu.Once[string, bool, int](cb, func() bool { bruns++; return (c.First != 0) == (bruns == 1) })
				if bruns != 1 || got != (c.First != 0) {
					fail("count-bool", "Once (bool result, first %v): after call %d the callback has run %d times, returned %v", c.First != 0, i, bruns, got)
					return
				}
			}
			// string results as well (non-empty, so that the cache accepts them)
			cs := cache.New[string, string](cache.DefaultExpiration, cache.NoExpiration)
			sruns := 0
			for i := 1; i <= c.Calls; i++ {
				got := gogu.Once[string, string, int](cs, func() string { sruns++; return fmt.Sprint("r", sruns) })
				if sruns != 1 || got != "r1" {
					fail("count-string", "Once (string result): after call %d the callback has run %d times, returned %q", i, sruns, got)
					return
				}
			}
			nontrivial = c.Calls >= 2
		case "OnceExp":
			// Once on an expiring cache (virtual time): "a single time for as long as its cache
			// entry lives" - after the entry expired (purged by a cleanup goroutine or not) the next
			// call runs the callback again, ONCE, and memoizes afresh. c.N = default expiry in ms
			// (<= 0: never), c.DelayMs = cleanup interval in ms (0: none), c.WorkMs = gaps between calls in us.
			var failSig, failMsg string
			synctest.Test(w.R.T.(*testing.T), func(t *testing.T) {
				def := time.Duration(c.N) * time.Millisecond
				ch := cache.New[string, int](def, time.Duration(c.DelayMs)*time.Millisecond+time.Duration(c.DelayMs)*317*time.Nanosecond)
				defer ch.VerifStopCleanup()
				runs := 0
				fn := func() int { runs++; return c.First + (runs-1)*10 }
				var deadline time.Time // zero: nothing memoized
				forever := false
				memo := 0
				for i, gap := range c.WorkMs {
					time.Sleep(time.Duration(gap) * time.Microsecond)
					now := time.Now()
					if !forever && !deadline.IsZero() && now.Equal(deadline) {
						time.Sleep(time.Nanosecond) // never observe exactly at the deadline
						now = time.Now()
					}
					live := forever || (!deadline.IsZero() && now.Before(deadline))
					before := runs
					got := gogu.Once[string, int, int](ch, fn)
					ran := runs - before
					switch {
					case live && ran != 0:
						failSig, failMsg = "ran-although-memoized", fmt.Sprintf("Once (expiry %v, cleanup %dms): call %d at +%v ran the callback although the entry memoized earlier lives until %v", def, c.DelayMs, i+1, now.Sub(time.Time{}), deadline)
						return
					case !live && ran != 1:
						failSig, failMsg = "count-after-expiry", fmt.Sprintf("Once (expiry %v, cleanup %dms): call %d ran the callback %d times with no live memo (gaps %v us)", def, c.DelayMs, i+1, ran, c.WorkMs)
						return
					}
					if ran == 1 {
						memo = got
						if def > 0 {
							deadline = time.Now().Add(def)
						} else {
							forever = true
						}
					}
					if got != memo {
						failSig, failMsg = "value-after-expiry", fmt.Sprintf("Once (expiry %v, cleanup %dms): call %d returned %d, the live memo is %d (gaps %v us)", def, c.DelayMs, i+1, got, memo, c.WorkMs)
						return
					}
				}
			})
			if failSig != "" {
				fail(failSig, "%s", failMsg)
				return
			}
			nontrivial = len(c.WorkMs) >= 3
		case "Retry":
			calls := 0
			var lastErr error
			fn := func(in string) error {
				if in != "input" {
					panic("Retry passed a different input: " + in)
				}
				calls++
				if calls-1 < len(c.Pattern) && c.Pattern[calls-1] == 'F' {
					lastErr = fmt.Errorf("attempt %d failed", calls)
					return lastErr
				}
				return nil
			}
			attempts, err := gogu.RType[string]{Input: "input"}.Retry(c.N, fn)
			wantCalls, wantAtt, wantErr := expectRetry(c.N, c.Pattern)
			if calls != wantCalls {
				fail("count", "Retry(n=%d, pattern %q): callback ran %d times, want %d", c.N, c.Pattern, calls, wantCalls)
				return
			}
			if c.N > 0 {
				if attempts != wantAtt {
					fail("attempts", "Retry(n=%d, pattern %q): reported %d failed attempts, want %d", c.N, c.Pattern, attempts, wantAtt)
					return
				}
				if wantErr && (err == nil || !errors.Is(err, lastErr)) || !wantErr && err != nil {
					fail("error", "Retry(n=%d, pattern %q): returned error %v, last callback error %v, error expected: %v", c.N, c.Pattern, err, lastErr, wantErr)
					return
				}
			}
			nontrivial = wantCalls >= 2
		case "RetryWithDelay":
			d := time.Duration(c.DelayMs)*time.Millisecond + time.Duration(c.DelayNs)
			var stamps, ends []time.Duration
			var lastErr error
			var attempts int
			var err error
			var elapsed time.Duration
			synctest.Test(w.R.T.(*testing.T), func(t *testing.T) {
				t0 := time.Now()
				fn := func(since time.Duration, in string) error {
					stamps = append(stamps, time.Since(t0))
					k := len(stamps)
					if len(c.WorkMs) > 0 { // the attempt itself takes (virtual) time
						time.Sleep(time.Duration(c.WorkMs[(k-1)%len(c.WorkMs)]) * time.Millisecond)
					}
					ends = append(ends, time.Since(t0))
					if k-1 < len(c.Pattern) && c.Pattern[k-1] == 'F' {
						lastErr = fmt.Errorf("attempt %d failed", k)
						return lastErr
					}
					return nil
				}
				elapsed, attempts, err = gogu.RType[string]{Input: "input"}.RetryWithDelay(c.N, d, fn)
			})
			wantCalls, wantAtt, wantErr := expectRetry(c.N, c.Pattern)
			if len(stamps) != wantCalls {
				fail("count", "RetryWithDelay(n=%d, %v, pattern %q): callback ran %d times, want %d", c.N, d, c.Pattern, len(stamps), wantCalls)
				return
			}
			for i := 1; i < len(stamps); i++ {
				// the wait lies between the end of one attempt and the start of the next
				if gap := stamps[i] - ends[i-1]; gap < d {
					fail("too-early", "RetryWithDelay(n=%d, %v, work %v ms): attempt %d started %v after attempt %d ended (virtual time; starts %v, ends %v)", c.N, d, c.WorkMs, i+1, gap, i, stamps, ends)
					return
				}
			}
			if c.N > 0 {
				if attempts != wantAtt {
					fail("attempts", "RetryWithDelay(n=%d, pattern %q): reported %d failed attempts, want %d", c.N, c.Pattern, attempts, wantAtt)
					return
				}
				if wantErr && (err == nil || !errors.Is(err, lastErr)) || !wantErr && err != nil {
					fail("error", "RetryWithDelay(n=%d, pattern %q): returned error %v, error expected: %v", c.N, c.Pattern, err, wantErr)
					return
				}
				if len(ends) > 0 && elapsed < ends[len(ends)-1] {
					fail("elapsed", "RetryWithDelay reported %v elapsed, last attempt ended at %v", elapsed, ends[len(ends)-1])
					return
				}
			}
			nontrivial = wantCalls >= 2
		default:
			panic("unknown fn " + c.Fn)
		}
	})
	if p != nil {
		fail("panic", "%s panicked: %v", core.JSON(c), p)
		return
	}
	w.Count("calls:"+c.Fn, 1)
	if nontrivial {
		w.NonTrivial(core.HashString(core.JSON(c)))
	}
	if w.WantSample() && nontrivial {
		w.Sample(c)
	}
}

// expectRetry: how often the callback must run, the reported number of failed attempts, whether an error is due.
func expectRetry(n int, pattern string) (calls, attempts int, wantErr bool) {
	if n <= 0 {
		return 0, 0, false
	}
	for k := 0; k < n; k++ {
		calls++
		if k < len(pattern) && pattern[k] == 'F' {
			attempts++
			continue
		}
		return calls, attempts, false
	}
	return calls, attempts, true
}

func patterns(maxLen int) []string {
	out := []string{""}
	prev := []string{""}
	for l := 1; l <= maxLen; l++ {
		var cur []string
		for _, p := range prev {
			cur = append(cur, p+"F", p+"S")
		}
		out = append(out, cur...)
		prev = cur
	}
	return out
}

func TestProp(t *testing.T) {
	r := core.Start(t, "C18")
	defer r.Finish()
	r.Rule("cases = one use of After/Before/Once (n in -2..8, 0..12 calls, counter types int/int8/int64, fresh no-expiry cache) or Retry/RetryWithDelay (n in -2..8, every success/failure pattern up to length 8; RetryWithDelay inside a testing/synctest bubble so that the gaps between attempts are exact) with a counting callback: runs per call, returned values, attempt counts, last error, gaps between the end of an attempt and the start of the next >= delay (attempts may themselves take virtual time; delays from 1 ns, incl. fractions of a millisecond); non-trivial = the callback is suppressed at least once after having been allowed (resp. >= 2 attempts); distinct by hash of the case")

	core.Monitor(r, "count-sweep", 0, func(emit func(Case)) {
		var n int64
		for nn := -2; nn <= 8; nn++ {
			for calls := 0; calls <= 12; calls++ {
				for _, typ := range []string{"int", "int8", "int64"} {
					emit(Case{Fn: "After", N: nn, Calls: calls, Typ: typ})
					n++
				}
				for _, typ := range []string{"int", "int8"} {
					emit(Case{Fn: "Before", N: nn, Calls: calls, Typ: typ})
					n++
				}
			}
		}
		for calls := 0; calls <= 12; calls++ {
			for _, first := range []int{10, 0, -1, 1} {
				emit(Case{Fn: "Once", Calls: calls, First: first})
				n++
			}
		}
		// Once on expiring caches: expiry {5ms, 0 (never), -1 (never)} x cleanup {none, 2ms} x gap scripts
		gapSets := [][]int{{0, 1000, 1000}, {0, 1000, 4500, 1000, 1000}, {0, 6001, 100, 100}, {0, 2500, 2501, 2502, 100}, {0, 12001, 1, 5003, 5003, 7}, {0, 100, 100, 100, 100, 100, 100, 100, 100, 20000, 100}}
		for _, def := range []int{5, 0, -1} {
			for _, cl := range []int{0, 2} {
				for _, gs := range gapSets {
					for _, first := range []int{10, 0} {
						emit(Case{Fn: "OnceExp", N: def, DelayMs: cl, WorkMs: gs, First: first})
						n++
					}
				}
			}
		}
		pats := patterns(8)
		for nn := -2; nn <= 8; nn++ {
			for _, p := range pats {
				emit(Case{Fn: "Retry", N: nn, Pattern: p})
				n++
				for _, d := range []int{1, 7, 50} {
					if d != 7 && len(p) > 5 {
						continue
					}
					emit(Case{Fn: "RetryWithDelay", N: nn, Pattern: p, DelayMs: d})
					n++
				}
				// delays that are not a whole number of milliseconds (1 ns, 250 us, 1 ms - 1 ns, 1.9 ms, 7 ms + 1 ns)
				if len(p) <= 5 {
					for _, dn := range [][2]int{{0, 1}, {0, 250000}, {0, 999999}, {1, 900000}, {7, 1}} {
						emit(Case{Fn: "RetryWithDelay", N: nn, Pattern: p, DelayMs: dn[0], DelayNs: dn[1]})
						n++
					}
				}
				// attempts that take time themselves: shorter than, equal to and longer than the delay
				if len(p) <= 6 {
					for _, wk := range [][]int{{3}, {7}, {21}, {21, 0}, {0, 30, 2}, {8, 8, 40}} {
						emit(Case{Fn: "RetryWithDelay", N: nn, Pattern: p, DelayMs: 7, WorkMs: wk})
						n++
					}
				}
			}
		}
		r.Exhaustive("After/Before: n in -2..8 x calls 0..12 x counter types; Once on expiring caches in virtual time (expiry 5ms/never x cleanup none/2ms x 6 gap scripts: one run per lifetime of the memo); Once: calls 0..12 x first result {10, 0 (zero value), -1, 1} for int, bool and string results; Retry and RetryWithDelay: n in -2..8 x ALL success/failure patterns of length<=8 (delays 1/7/50 ms, virtual time; patterns of length<=6 also with six schedules of time spent inside the attempts)", n)
	}, run)
}
