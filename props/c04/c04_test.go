// C04 — binary search tree behaves as an ordered map (DESIGN §4 C04).
// Oracle: reference-model trace monitor (map + comparator order).
package c04

import (
	"reflect"
	"fmt"
	"sort"
	"testing"

	"github.com/esimov/gogu/bstree"

	"verif/internal/core"
	"verif/internal/seq"
)

type Op struct {
	K   string `json:"k"` // U upsert, D delete, G get
	Key int    `json:"key"`
}

type Case struct {
	Desc bool `json:"desc"`           // descending comparator
	Full bool `json:"full,omitempty"` // observe the whole state after every step (else after the last one)
	// Coarse: the comparator orders keys by k/3 only, so distinct keys may be equivalent under it;
	// the tree is then a map from equivalence classes to values (the model is keyed by class)
	Coarse bool `json:"coarse,omitempty"`
	Ops  []Op `json:"ops"`
	Keys int  `json:"keys"` // probe keys -1..Keys
}

func run(w *core.Worker, c Case) {
	cls := func(k int) int { return k }
	if c.Coarse {
		cls = func(k int) int { return (k + 300) / 3 }
	}
	comp := func(a, b int) bool { return cls(a) < cls(b) }
	if c.Desc {
		comp = func(a, b int) bool { return cls(a) > cls(b) }
	}
	t := bstree.New[int, int](comp)
	model := map[int]int{} // keyed by class (= key unless Coarse)
	sawDeleteHit, sawOverwrite, sawTwoChild := false, false, false
	miss := 0 // Delete calls that named an absent key

	observe := func(step int) bool {
		if got := t.Size(); got != len(model) {
			if miss > 0 && got == len(model)-miss {
				// exactly one too few per Delete of an absent key: the defect pinned by
				// bstree's Example (known finding); everything else is still checked.
				w.Violation("bst.size-drift-after-absent-delete", fmt.Sprintf("after step %d: Size()=%d, model holds %d keys, %d Delete calls named an absent key", step, got, len(model), miss))
			} else {
				w.Violation("bst.size", fmt.Sprintf("after step %d: Size()=%d, model holds %d keys %v (absent-key deletes so far: %d)", step, got, len(model), model, miss))
				return false
			}
		}
		for k := -1; k <= c.Keys; k++ {
			it, err := t.Get(k)
			mv, ok := model[cls(k)]
			if ok != (err == nil) {
				w.Violation("bst.get-presence", fmt.Sprintf("after step %d: Get(%d) err=%v, model present=%v", step, k, err, ok))
				return false
			}
			if ok && (cls(it.Key) != cls(k) || it.Val != mv) {
				w.Violation("bst.get-value", fmt.Sprintf("after step %d: Get(%d)=%+v, model value %d", step, k, it, mv))
				return false
			}
		}
		// Traverse: each present key once, with its value, in comparator order.
		want := make([]int, 0, len(model))
		for k := range model {
			want = append(want, k)
		}
		sort.Slice(want, func(i, j int) bool { return (want[i] < want[j]) != c.Desc })
		var got []bstree.Item[int, int]
		overrun := false
		p := core.Catch(func() {
			t.Traverse(func(it bstree.Item[int, int]) {
				got = append(got, it)
				if len(got) > len(model)+8 {
					overrun = true
					panic("verif: traverse overrun")
				}
			})
		})
		if overrun {
			w.Violation("bst.traverse-overrun", fmt.Sprintf("after step %d: Traverse delivered more than %d items for %d keys", step, len(model)+8, len(model)))
			return false
		}
		if p != nil {
			w.Violation("bst.panic:Traverse", fmt.Sprintf("after step %d: Traverse panicked: %v", step, p))
			return false
		}
		if len(got) != len(want) {
			w.Violation("bst.traverse-length", fmt.Sprintf("after step %d: Traverse gave %v, model keys in order %v", step, got, want))
			return false
		}
		for i, k := range want {
			if cls(got[i].Key) != k || got[i].Val != model[k] {
				w.Violation("bst.traverse-order", fmt.Sprintf("after step %d: Traverse gave %v, want keys (classes) %v with values %v", step, got, want, model))
				return false
			}
		}
		// Re-entrant use: a Traverse started from inside a Traverse callback (a nested loop over the
		// map). Both walks must deliver the complete sequence just verified; walks must not share state.
		if len(got) > 0 {
			nestAt := (step + len(c.Ops)) % len(got)
			var outer, inner []bstree.Item[int, int]
			p := core.Catch(func() {
				t.Traverse(func(it bstree.Item[int, int]) {
					outer = append(outer, it)
					if len(outer) > len(got)+8 {
						panic("verif: traverse overrun")
					}
					if len(outer)-1 == nestAt {
						t.Traverse(func(it2 bstree.Item[int, int]) {
							inner = append(inner, it2)
							if len(inner) > len(got)+8 {
								panic("verif: traverse overrun")
							}
						})
					}
				})
			})
			if p != nil {
				w.Violation("bst.nested-traverse-panic", fmt.Sprintf("after step %d: a Traverse nested in the callback of a Traverse at position %d panicked/overran: %v", step, nestAt, p))
				return false
			}
			if !reflect.DeepEqual(outer, got) || !reflect.DeepEqual(inner, got) {
				w.Violation("bst.nested-traverse", fmt.Sprintf("after step %d: Traverse with a nested Traverse started at position %d: outer walk %v, inner walk %v, a plain Traverse gives %v", step, nestAt, outer, inner, got))
				return false
			}
		}
		return true
	}

	for i, op := range c.Ops {
		var p any
		switch op.K {
		case "U":
			val := 100 + i
			p = core.Catch(func() { t.Upsert(op.Key, val) })
			if _, ok := model[cls(op.Key)]; ok {
				sawOverwrite = true
			}
			model[cls(op.Key)] = val
		case "D":
			var err error
			p = core.Catch(func() { err = t.Delete(op.Key) })
			_, ok := model[cls(op.Key)]
			if p == nil && ok != (err == nil) {
				w.Violation("bst.delete-result", fmt.Sprintf("step %d: Delete(%d) err=%v, model present=%v", i, op.Key, err, ok))
				return
			}
			if !ok {
				miss++
			}
			if ok {
				sawDeleteHit = true
				// two-child deletion?
				lo, hi := false, false
				for k := range model {
					if k < cls(op.Key) {
						lo = true
					}
					if k > cls(op.Key) {
						hi = true
					}
				}
				if lo && hi {
					sawTwoChild = true
				}
			}
			delete(model, cls(op.Key))
		case "G":
			var it bstree.Item[int, int]
			var err error
			p = core.Catch(func() { it, err = t.Get(op.Key) })
			mv, ok := model[cls(op.Key)]
			if p == nil && (ok != (err == nil) || (ok && it.Val != mv)) {
				w.Violation("bst.get-value", fmt.Sprintf("step %d: Get(%d)=%+v,%v model=%v,%v", i, op.Key, it, err, mv, ok))
				return
			}
		}
		if p != nil {
			w.Violation("bst.panic:"+op.K, fmt.Sprintf("step %d %+v panicked: %v", i, op, p))
			return
		}
		if c.Full || i == len(c.Ops)-1 {
			// read-your-write first, before any other lookup touches the tree
			it, err := t.Get(op.Key)
			if mv, ok := model[cls(op.Key)]; ok != (err == nil) || (ok && (cls(it.Key) != cls(op.Key) || it.Val != mv)) {
				w.Violation("bst.get-value", fmt.Sprintf("step %d: Get(%d) right after %+v = %+v,%v model=%v,%v", i, op.Key, op, it, err, mv, ok))
				return
			}
			if !observe(i) {
				return
			}
		}
	}
	if sawDeleteHit || sawOverwrite {
		h := core.HashString(core.JSON(c))
		w.NonTrivial(h)
	}
	if sawTwoChild {
		w.Count("cases_with_two_sided_delete", 1)
	}
	if w.WantSample() && len(c.Ops) >= 4 && sawDeleteHit {
		w.Sample(map[string]any{"case": c, "final_model": fmt.Sprint(model)})
	}
}


// FuzzBST (thorough tier): coverage-guided fuzzing over Upsert/Delete/Get scripts (single keys and
// runs of 24 consecutive keys), ascending/descending/coarse comparators, same run oracle.
func FuzzBST(f *testing.F) {
	f.Add(uint8(0), []byte{0, 5, 0, 3, 0, 8, 1, 5, 2, 8, 3, 10, 1, 20})
	f.Add(uint8(3), []byte{3, 100, 1, 110, 1, 104, 0, 7, 2, 7})
	f.Fuzz(func(t *testing.T, mode uint8, data []byte) {
		if len(data) > 80 {
			data = data[:80]
		}
		c := Case{Desc: mode&1 == 1, Coarse: mode&2 == 2, Full: true, Keys: -2}
		for i := 0; i+1 < len(data); i += 2 {
			k := int(data[i+1])
			switch data[i] % 5 {
			case 0:
				c.Ops = append(c.Ops, Op{"U", k})
			case 1:
				c.Ops = append(c.Ops, Op{"D", k})
			case 2:
				c.Ops = append(c.Ops, Op{"G", k})
			case 3:
				for j := 0; j < 24; j++ {
					c.Ops = append(c.Ops, Op{"U", k + j})
				}
			default:
				for j := 23; j >= 0; j-- {
					c.Ops = append(c.Ops, Op{"U", k + j*3})
				}
			}
		}
		if len(c.Ops) == 0 {
			return
		}
		w := core.Probe(func(sig, detail string) { t.Fatalf("VERIF-SIG %s\nVERIF-CASE %s\n%s", sig, core.JSON(c), detail) })
		run(w, c)
	})
}

// runIdentity: values with identity (pointers) held in an interface-typed tree, a quarter of the
// values being the nil interface (a legitimate value: the key is present, its value is nil). Every Upsert stores a fresh pointer whose pointee
// is drawn from {0,1}, so most overwrites replace a value by a distinct one with equal contents;
// Get and Traverse must hand back the very pointer upserted last (an ordered MAP returns the value
// stored last - a store skipped because the contents "did not change" keeps the older one, which
// the caller can tell apart as soon as it mutates or compares the pointee's address).
func runIdentity(w *core.Worker, c Case) {
	t := bstree.New[int, any](func(a, b int) bool { return a < b })
	model := map[int]any{}
	overwrites := 0
	for i, op := range c.Ops {
		var p any
		switch op.K {
		case "U":
			pv := new(int)
			*pv = (op.Key + i/7) % 2
			var v any = pv
			if (op.Key+i)%4 == 0 {
				v = nil // the nil interface is a value like any other: present, with value nil
			}
			p = core.Catch(func() { t.Upsert(op.Key, v) })
			if _, ok := model[op.Key]; ok {
				overwrites++
			}
			model[op.Key] = v
		case "D":
			p = core.Catch(func() { t.Delete(op.Key) })
			delete(model, op.Key)
		case "G":
		}
		if p != nil {
			w.Violation("bst.panic:"+op.K, fmt.Sprintf("pointer values, step %d %+v panicked: %v", i, op, p))
			return
		}
		for k := 0; k < c.Keys; k++ {
			it, err := t.Get(k)
			mv, ok := model[k]
			if ok != (err == nil) || (ok && it.Val != mv) {
				w.Violation("bst.identity-get", fmt.Sprintf("pointer values, after step %d (%+v): Get(%d) = (%v, %v), the pointer upserted last is %v (present=%v)", i, op, k, it.Val, err, mv, ok))
				return
			}
		}
		n, bad := 0, false
		t.Traverse(func(it bstree.Item[int, any]) {
			n++
			if mv, ok := model[it.Key]; !ok || mv != it.Val {
				bad = true
			}
		})
		if bad || n != len(model) {
			w.Violation("bst.identity-traverse", fmt.Sprintf("pointer values, after step %d (%+v): Traverse visited %d items (model %d) or delivered a pointer other than the one upserted last", i, op, n, len(model)))
			return
		}
	}
	if overwrites > 0 {
		w.NonTrivial(core.HashString("id" + core.JSON(c)))
	}
}

func TestProp(t *testing.T) {
	r := core.Start(t, "C04")
	defer r.Finish()
	r.Rule("cases = operation sequences on bstree.BsTree[int,int] (Upsert with a fresh value per step / Delete / Get) checked against a map model: every return value, and Size + Get of every probe key + the full Traverse sequence (plain, and again with a second Traverse started from inside the callback) after the last step (systematic sweep: every shorter sequence is its own case) or after every step (random sequences; a third of them without the extra per-step lookups, so that nothing but the script's own Gets touches the tree between mutations); a quarter of the cases use a comparator that orders keys by k/3 only (distinct keys equivalent under it: the tree is then a map from classes to values); non-trivial = the sequence overwrote a present key or deleted a present key; bst-identity-values: BsTree[int,*int], every Upsert a fresh pointer with pointee in {0,1}, Get of every key and Traverse must return the pointer upserted last; bst-bulk: 129-5000 keys loaded in sorted/reversed/shuffled order, then three rounds of deleting a fifth of the keys and re-inserting, with Size, the complete Traverse sequence (twice) and 64 random Gets after each phase; distinct by hash of (comparator, ops)")

	L := r.Pick(6, 7)
	var alpha []Op
	for k := 0; k <= 4; k++ {
		alpha = append(alpha, Op{"U", k}, Op{"D", k})
	}
	core.Monitor(r, "bst-sweep", 0, func(emit func(Case)) {
		for _, desc := range []bool{false, true} {
			l := L
			if desc {
				l = L - 1 // the mirrored comparator gets one step less
			}
			n := seq.Enum(alpha, l, func(ops []Op) {
				emit(Case{Desc: desc, Ops: ops, Keys: 5})
				if len(ops) <= l-1 {
					emit(Case{Desc: desc, Coarse: true, Ops: ops, Keys: 5})
				}
			})
			r.Exhaustive(fmt.Sprintf("all Upsert/Delete sequences of length<=%d over keys 0..4, desc=%v", l, desc), n)
		}
	}, run)

	nRand := r.Pick(20000, 1000000)
	core.Monitor(r, "bst-random", 0, func(emit func(Case)) {
		rng := r.Rand("c04-random")
		for i := 0; i < nRand; i++ {
			keys := []int{6, 16, 64}[rng.Intn(3)]
			n := rng.Range(8, 60)
			mode := rng.Intn(4) // 0 random, 1 sorted inserts first, 2 reversed inserts first, 3 churn
			var ops []Op
			switch mode {
			case 1:
				for k := 0; k < keys && len(ops) < n/2; k++ {
					ops = append(ops, Op{"U", k})
				}
			case 2:
				for k := keys - 1; k >= 0 && len(ops) < n/2; k-- {
					ops = append(ops, Op{"U", k})
				}
			}
			for len(ops) < n {
				x := rng.Intn(10)
				k := rng.Intn(keys)
				switch {
				case x < 4:
					ops = append(ops, Op{"U", k})
				case x < 8:
					ops = append(ops, Op{"D", k})
					if rng.Chance(1, 3) { // look up the neighbourhood after a delete; re-insert
						ops = append(ops, Op{"G", k + 1}, Op{"U", k})
					}
				default:
					ops = append(ops, Op{"G", k})
				}
			}
			// a third of the cases is observed only through its own operations (every Get result is
			// still compared with the model) and once at the end: the monitor's extra lookups after
			// every step would otherwise refresh whatever the tree remembers between operations
			emit(Case{Desc: rng.Bool(), Coarse: i%4 == 3, Full: i%3 != 1, Ops: ops, Keys: keys})
		}
	}, run)

	nId := r.Pick(4000, 200000)
	core.Monitor(r, "bst-identity-values", 0, func(emit func(Case)) {
		rng := r.Rand("c04-identity")
		for i := 0; i < nId; i++ {
			keys := []int{3, 6, 16}[rng.Intn(3)]
			var ops []Op
			for n := rng.Range(6, 50); n > 0; n-- {
				k := rng.Intn(keys)
				if rng.Intn(10) < 7 {
					ops = append(ops, Op{"U", k})
				} else {
					ops = append(ops, Op{"D", k})
				}
			}
			emit(Case{Full: true, Ops: ops, Keys: keys})
		}
	}, runIdentity)

	// large trees: hundreds to thousands of keys (batching / buffering inside Traverse, deep
	// recursion); Traverse is compared in full after the load and after every block of deletes
	nBulk := r.Pick(40, 600)
	core.Monitor(r, "bst-bulk", 0, func(emit func(BulkCase)) {
		rng := r.Rand("c04-bulk")
		for i := 0; i < nBulk; i++ {
			emit(BulkCase{Desc: i%2 == 1, N: []int{129, 130, 257, 600, 1500, 5000}[rng.Intn(6)] + rng.Intn(3), Order: i % 3, Seed: rng.Uint64()})
		}
	}, runBulk)
}

// BulkCase: N keys inserted in sorted (0), reversed (1) or shuffled (2) order, then three rounds of
// deleting a random fifth of the present keys; full observation after each phase.
type BulkCase struct {
	Desc  bool   `json:"desc"`
	N     int    `json:"n"`
	Order int    `json:"order"`
	Seed  uint64 `json:"seed"`
}

func runBulk(w *core.Worker, c BulkCase) {
	comp := func(a, b int) bool { return a < b }
	if c.Desc {
		comp = func(a, b int) bool { return a > b }
	}
	t := bstree.New[int, int](comp)
	model := map[int]int{}
	rng := core.NewRand(c.Seed)
	keys := make([]int, c.N)
	for i := range keys {
		keys[i] = i
	}
	switch c.Order {
	case 1:
		for a, b := 0, c.N-1; a < b; a, b = a+1, b-1 {
			keys[a], keys[b] = keys[b], keys[a]
		}
	case 2:
		for j := c.N - 1; j > 0; j-- {
			k := rng.Intn(j + 1)
			keys[j], keys[k] = keys[k], keys[j]
		}
	}
	check := func(phase string) bool {
		if got := t.Size(); got != len(model) {
			w.Violation("bst.size", fmt.Sprintf("bulk %s: Size()=%d, model holds %d keys", phase, got, len(model)))
			return false
		}
		want := make([]int, 0, len(model))
		for k := range model {
			want = append(want, k)
		}
		sort.Slice(want, func(i, j int) bool { return comp(want[i], want[j]) })
		for round := 0; round < 2; round++ { // twice: a second traversal must see the same
			var got []bstree.Item[int, int]
			overrun := false
			p := core.Catch(func() {
				t.Traverse(func(it bstree.Item[int, int]) {
					got = append(got, it)
					if len(got) > len(model)+8 {
						overrun = true
						panic("verif: traverse overrun")
					}
				})
			})
			if overrun || p != nil {
				w.Violation("bst.traverse-overrun", fmt.Sprintf("bulk %s: Traverse delivered more than %d items or panicked (%v)", phase, len(model)+8, p))
				return false
			}
			if len(got) != len(want) {
				w.Violation("bst.traverse-length", fmt.Sprintf("bulk %s: Traverse visited %d items, %d keys are present", phase, len(got), len(want)))
				return false
			}
			for i, k := range want {
				if got[i].Key != k || got[i].Val != model[k] {
					w.Violation("bst.traverse-order", fmt.Sprintf("bulk %s: Traverse position %d is %+v, want key %d value %d (%d keys)", phase, i, got[i], k, model[k], len(want)))
					return false
				}
			}
		}
		for j := 0; j < 64; j++ {
			k := rng.Intn(c.N+2) - 1
			it, err := t.Get(k)
			mv, ok := model[k]
			if ok != (err == nil) || (ok && (it.Key != k || it.Val != mv)) {
				w.Violation("bst.get-value", fmt.Sprintf("bulk %s: Get(%d)=%+v,%v model=%v,%v", phase, k, it, err, mv, ok))
				return false
			}
		}
		w.Tick()
		return true
	}
	p := core.Catch(func() {
		for i, k := range keys {
			t.Upsert(k, 100+i)
			model[k] = 100 + i
		}
		if !check("after load") {
			return
		}
		for round := 1; round <= 3; round++ {
			for k := range model {
				if rng.Chance(1, 5) {
					if err := t.Delete(k); err != nil {
						w.Violation("bst.delete-result", fmt.Sprintf("bulk: Delete(%d) of a present key returned %v", k, err))
						return
					}
					delete(model, k)
				}
			}
			for j := 0; j < c.N/10; j++ { // some re-inserts and overwrites
				k := rng.Intn(c.N)
				t.Upsert(k, 7000+j)
				model[k] = 7000 + j
			}
			if !check(fmt.Sprintf("after delete round %d", round)) {
				return
			}
		}
	})
	if p != nil {
		w.Violation("bst.panic:bulk", fmt.Sprintf("bulk case panicked: %v", p))
		return
	}
	w.NonTrivial(core.HashString(core.JSON(c)))
	if w.WantSample() {
		w.Sample(c)
	}
}
