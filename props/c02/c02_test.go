// C02 — concurrent container operations are linearizable (DESIGN §3.4, §4 C02).
//
// Built ONLY against the scratch copy with the vsync shim, tracked mode, no -race.
// Recorder at the client boundary (one global atomic counter as clock) + a fixed
// sequential observation suffix; checker = porcupine with THE IMPLEMENTATION
// ITSELF, replayed sequentially on a fresh instance, as the sequential
// specification: a history is legal iff some order of the calls that respects
// real-time precedence makes the sequential implementation return exactly the
// recorded results.
package c02

import (
	"encoding/json"
	"fmt"
	"os"
	"sort"
	"strings"
	"sync"
	"sync/atomic"
	"testing"
	"time"

	"github.com/anishathalye/porcupine"

	"github.com/esimov/gogu/bstree"
	"github.com/esimov/gogu/cache"
	"github.com/esimov/gogu/heap"
	"github.com/esimov/gogu/queue"
	"github.com/esimov/gogu/stack"
	"github.com/esimov/gogu/trie"
	"github.com/esimov/gogu/vsync"

	"verif/internal/core"
	"verif/internal/seq"
)

type Op struct {
	N string `json:"op"`
	A int    `json:"a,omitempty"`
	B int    `json:"b,omitempty"`
}

func (o Op) enc() string { return fmt.Sprintf("%s(%d,%d);", o.N, o.A, o.B) }

type ctype struct {
	name  string
	mk    func() any
	ops   func(vals []int) []Op        // single-element operations over the alphabet
	apply func(inst any, o Op) string  // canonical result
	probe func(vals []int) []Op        // read-only observation suffix
	drain func(inst any, rec func(Op)) // drains through the API, recording each call via rec
	inits [][]Op                       // initial states (nil: derived from the type's first mutators)
	maxLen  int                        // calls per thread in the enumerated programs (0 = 2)
	noLarge bool                       // no seeded larger programs for this table
	thoroughOnly bool                  // table runs in the thorough tier only
}

func b2s(b bool) string {
	if b {
		return "t"
	}
	return "f"
}

func e2s(err error) string {
	if err != nil {
		return "err"
	}
	return "ok"
}

var skeys = []string{"", "a", "b", "ab"}

func types() []ctype {
	lt := func(a, b int) bool { return a < b }
	stackOps := func(vals []int) []Op {
		o := []Op{{N: "Pop"}, {N: "Peek"}, {N: "Size"}}
		for _, v := range vals {
			o = append(o, Op{N: "Push", A: v}, Op{N: "Search", A: v})
		}
		return o
	}
	stackProbe := func(vals []int) []Op {
		o := []Op{{N: "Size"}, {N: "Peek"}}
		for _, v := range vals {
			o = append(o, Op{N: "Search", A: v})
		}
		return o
	}
	queueOps := func(vals []int) []Op {
		o := []Op{{N: "Dequeue"}, {N: "Peek"}, {N: "Size"}, {N: "Clear"}}
		for _, v := range vals {
			o = append(o, Op{N: "Enqueue", A: v}, Op{N: "Search", A: v})
		}
		return o
	}
	drainBy := func(sizeOp, popOp string) func(any, func(Op)) {
		return func(inst any, rec func(Op)) {
			_ = inst
			for i := 0; i < 10; i++ {
				rec(Op{N: sizeOp})
				rec(Op{N: popOp})
			}
			rec(Op{N: sizeOp})
		}
	}
	return []ctype{
		{
			name: "Stack", mk: func() any { return stack.New[int]() }, ops: stackOps, probe: stackProbe,
			apply: func(i any, o Op) string {
				s := i.(*stack.Stack[int])
				switch o.N {
				case "Drain":
					for k := 0; k < o.A; k++ {
						s.Pop()
					}
					return ""
				case "Fill":
					for v := 10; v < 10+o.A; v++ {
						s.Push(v)
					}
					return ""
				case "Push":
					s.Push(o.A)
					return ""
				case "Pop":
					return fmt.Sprint(s.Pop())
				case "Peek":
					return fmt.Sprint(s.Peek())
				case "Size":
					return fmt.Sprint(s.Size())
				case "Search":
					return b2s(s.Search(o.A))
				}
				panic("bad op")
			},
			drain: drainBy("Size", "Pop"),
		},
		{
			name: "LStack", mk: func() any { s := stack.NewLinked(9); s.Pop(); return s }, ops: stackOps, probe: stackProbe,
			apply: func(i any, o Op) string {
				s := i.(*stack.LStack[int])
				switch o.N {
				case "Fill":
					for v := 10; v < 10+o.A; v++ {
						s.Push(v)
					}
					return ""
				case "Push":
					s.Push(o.A)
					return ""
				case "Pop":
					return fmt.Sprint(s.Pop())
				case "Peek":
					return fmt.Sprint(s.Peek())
				case "Size":
					return fmt.Sprint(s.Size())
				case "Search":
					return b2s(s.Search(o.A))
				}
				panic("bad op")
			},
			drain: drainBy("Size", "Pop"),
		},
		{
			name: "Queue", mk: func() any { return queue.New[int]() }, ops: queueOps, probe: stackProbe,
			apply: func(i any, o Op) string {
				q := i.(*queue.Queue[int])
				switch o.N {
				case "Drain":
					for k := 0; k < o.A; k++ {
						q.Dequeue()
					}
					return ""
				case "Fill":
					for v := 10; v < 10+o.A; v++ {
						q.Enqueue(v)
					}
					return ""
				case "Enqueue":
					q.Enqueue(o.A)
					return ""
				case "Dequeue":
					v, err := q.Dequeue()
					return fmt.Sprint(v, e2s(err))
				case "Peek":
					return fmt.Sprint(q.Peek())
				case "Size":
					return fmt.Sprint(q.Size())
				case "Search":
					return b2s(q.Search(o.A))
				case "Clear":
					q.Clear()
					return ""
				}
				panic("bad op")
			},
			drain: drainBy("Size", "Dequeue"),
		},
		{
			name: "LQueue", mk: func() any { q := queue.NewLinked(9); q.Dequeue(); return q }, ops: queueOps, probe: stackProbe,
			apply: func(i any, o Op) string {
				q := i.(*queue.LQueue[int])
				switch o.N {
				case "Fill":
					for v := 10; v < 10+o.A; v++ {
						q.Enqueue(v)
					}
					return ""
				case "Enqueue":
					q.Enqueue(o.A)
					return ""
				case "Dequeue":
					return fmt.Sprint(q.Dequeue())
				case "Peek":
					return fmt.Sprint(q.Peek())
				case "Size":
					return fmt.Sprint(q.Size())
				case "Search":
					return b2s(q.Search(o.A))
				case "Clear":
					q.Clear()
					return ""
				}
				panic("bad op")
			},
			drain: drainBy("Size", "Dequeue"),
		},
		{
			name: "Heap", mk: func() any { return heap.NewHeap(lt) },
			ops: func(vals []int) []Op {
				o := []Op{{N: "Pop"}, {N: "Peek"}, {N: "Size"}, {N: "IsEmpty"}, {N: "Clear"}}
				for _, v := range vals {
					o = append(o, Op{N: "Push", A: v}, Op{N: "Delete", A: v})
				}
				return o
			},
			probe: func(vals []int) []Op { return []Op{{N: "Size"}, {N: "IsEmpty"}, {N: "Peek"}, {N: "Values"}} },
			apply: func(i any, o Op) string {
				h := i.(*heap.Heap[int])
				switch o.N {
				case "Drain":
					for k := 0; k < o.A; k++ {
						h.Pop()
					}
					return ""
				case "Fill":
					for v := 10; v < 10+o.A; v++ {
						h.Push(v)
					}
					return ""
				case "Push":
					h.Push(o.A)
					return ""
				case "Pop":
					return fmt.Sprint(h.Pop())
				case "Peek":
					return fmt.Sprint(h.Peek())
				case "Size":
					return fmt.Sprint(h.Size())
				case "IsEmpty":
					return b2s(h.IsEmpty())
				case "Clear":
					h.Clear()
					return ""
				case "Delete":
					ok, _ := h.Delete(o.A)
					return b2s(ok)
				case "Values":
					v := append([]int{}, h.GetValues()...)
					sort.Ints(v)
					return fmt.Sprint(v)
				}
				panic("bad op")
			},
			drain: drainBy("Size", "Pop"),
		},
		{
			name: "BsTree", mk: func() any { return bstree.New[int, int](lt) },
			ops: func(vals []int) []Op {
				o := []Op{{N: "Size"}}
				for _, v := range vals {
					o = append(o, Op{N: "Upsert", A: v, B: 1}, Op{N: "Upsert", A: v, B: 2}, Op{N: "Get", A: v}, Op{N: "Delete", A: v})
				}
				return o
			},
			probe: func(vals []int) []Op {
				o := []Op{{N: "Size"}, {N: "Traverse"}}
				for _, v := range vals {
					o = append(o, Op{N: "Get", A: v})
				}
				return o
			},
			apply: func(i any, o Op) string {
				b := i.(*bstree.BsTree[int, int])
				switch o.N {
				case "Upsert":
					b.Upsert(o.A, o.B)
					return ""
				case "Get":
					it, err := b.Get(o.A)
					return fmt.Sprint(it.Val, e2s(err))
				case "Delete":
					return e2s(b.Delete(o.A))
				case "Size":
					return fmt.Sprint(b.Size())
				case "Traverse":
					var sb strings.Builder
					b.Traverse(func(it bstree.Item[int, int]) { fmt.Fprintf(&sb, "%d=%d,", it.Key, it.Val) })
					return sb.String()
				}
				panic("bad op")
			},
			drain: func(inst any, rec func(Op)) {
				for _, k := range []int{1, 2, 3} {
					rec(Op{N: "Delete", A: k})
					rec(Op{N: "Size"})
				}
			},
		},
		{
			name: "Trie", mk: func() any { return trie.New[string, int](queue.New[string]()) },
			ops: func(vals []int) []Op {
				o := []Op{{N: "Size"}}
				for _, v := range vals {
					o = append(o, Op{N: "Put", A: v, B: 1}, Op{N: "Put", A: v, B: 2}, Op{N: "Get", A: v}, Op{N: "Contains", A: v})
				}
				return o
			},
			probe: func(vals []int) []Op {
				o := []Op{{N: "Size"}, {N: "Keys"}}
				for _, v := range []int{1, 2, 3} {
					o = append(o, Op{N: "Get", A: v})
				}
				return o
			},
			apply: func(i any, o Op) string {
				t := i.(*trie.Trie[string, int])
				switch o.N {
				case "Put":
					t.Put(skeys[o.A], o.B)
					return ""
				case "Get":
					v, ok := t.Get(skeys[o.A])
					return fmt.Sprint(v, b2s(ok))
				case "Contains":
					return b2s(t.Contains(skeys[o.A]))
				case "Size":
					return fmt.Sprint(t.Size())
				case "Keys":
					q, _ := t.Keys()
					var ks []string
					for n := q.Size(); n > 0; n-- {
						k, _ := q.Dequeue()
						ks = append(ks, k)
					}
					return strings.Join(ks, ",")
				}
				panic("bad op")
			},
			drain: func(inst any, rec func(Op)) {},
		},
		{
			name: "Cache", mk: func() any { return cache.New[string, int](cache.NoExpiration, 0) },
			ops: func(vals []int) []Op {
				o := []Op{{N: "Count"}}
				for _, v := range vals {
					o = append(o, Op{N: "Set", A: v, B: 1}, Op{N: "Set", A: v, B: 2}, Op{N: "Get", A: v}, Op{N: "Update", A: v, B: 3}, Op{N: "Delete", A: v})
				}
				return o
			},
			probe: func(vals []int) []Op {
				o := []Op{{N: "Count"}, {N: "List"}}
				for _, v := range []int{1, 2, 3} {
					o = append(o, Op{N: "Get", A: v})
				}
				return o
			},
			apply: func(i any, o Op) string {
				c := i.(*cache.Cache[string, int])
				switch o.N {
				case "Set":
					return e2s(c.Set(skeys[o.A], o.B, cache.DefaultExpiration))
				case "Update":
					return e2s(c.Update(skeys[o.A], o.B, cache.DefaultExpiration))
				case "Get":
					it, err := c.Get(skeys[o.A])
					return fmt.Sprint(it.Val(), e2s(err))
				case "Delete":
					return e2s(c.Delete(skeys[o.A]))
				case "Count":
					return fmt.Sprint(c.Count())
				case "List":
					var ks []string
					for k, it := range c.List() {
						ks = append(ks, fmt.Sprintf("%s=%d", k, it.Val()))
					}
					sort.Strings(ks)
					return strings.Join(ks, ",")
				}
				panic("bad op")
			},
			drain: func(inst any, rec func(Op)) {
				for _, k := range []int{1, 2, 3} {
					rec(Op{N: "Delete", A: k})
					rec(Op{N: "Count"})
				}
			},
		},
	}
}

// cacheExpType: the expiring cache with entries that are EXPIRED BUT NOT YET PURGED when the
// concurrent calls start. Such entries are created only in the (sequential) initial state:
// SetX stores with a 1 ns lifetime and returns once the wall clock the cache reads has
// passed that deadline, so from then on the entry is expired for every later call and a
// sequential replay sees exactly the same. Everything stored by the concurrent calls never
// expires, hence no result depends on when a call runs. full adds DeleteExpired/IsExpired.
func cacheExpType(name string, full bool) ctype {
	return ctype{
		name: name, mk: func() any { return cache.New[string, int](cache.NoExpiration, 0) },
		inits: [][]Op{{{N: "SetX", A: 1, B: 7}}, {{N: "SetX", A: 1, B: 7}, {N: "Set", A: 2, B: 8}}, {{N: "SetX", A: 1, B: 7}, {N: "SetX", A: 2, B: 8}}},
		ops: func(vals []int) []Op {
			o := []Op{{N: "Count"}}
			if full {
				o = append(o, Op{N: "DeleteExpired"})
			}
			for _, v := range vals {
				if v > 2 {
					continue
				}
				o = append(o, Op{N: "Set", A: v, B: 1}, Op{N: "Get", A: v}, Op{N: "Update", A: v, B: 3}, Op{N: "Delete", A: v})
				if full {
					o = append(o, Op{N: "IsExpired", A: v})
				}
			}
			return o
		},
		probe: func(vals []int) []Op {
			o := []Op{{N: "Count"}, {N: "List"}}
			for _, v := range []int{1, 2} {
				o = append(o, Op{N: "Get", A: v}, Op{N: "IsExpired", A: v})
			}
			return o
		},
		apply: func(i any, o Op) string {
			c := i.(*cache.Cache[string, int])
			switch o.N {
			case "SetX":
				err := c.Set(skeys[o.A], o.B, time.Nanosecond)
				for t1 := time.Now().UnixNano(); time.Now().UnixNano() <= t1+1; {
				}
				return e2s(err)
			case "Set":
				return e2s(c.Set(skeys[o.A], o.B, cache.NoExpiration))
			case "Update":
				return e2s(c.Update(skeys[o.A], o.B, cache.NoExpiration))
			case "Get":
				it, err := c.Get(skeys[o.A])
				return fmt.Sprint(it.Val(), e2s(err))
			case "Delete":
				return e2s(c.Delete(skeys[o.A]))
			case "DeleteExpired":
				return e2s(c.DeleteExpired())
			case "IsExpired":
				return b2s(c.IsExpired(skeys[o.A]))
			case "Count":
				return fmt.Sprint(c.Count())
			case "List":
				var ks []string
				for k, it := range c.List() {
					ks = append(ks, fmt.Sprintf("%s=%d", k, it.Val()))
				}
				sort.Strings(ks)
				return strings.Join(ks, ",")
			}
			panic("bad op")
		},
		drain: func(inst any, rec func(Op)) {
			rec(Op{N: "DeleteExpired"})
			rec(Op{N: "Count"})
			for _, k := range []int{1, 2} {
				rec(Op{N: "Delete", A: k})
				rec(Op{N: "Count"})
			}
		},
	}
}

// ---------------------------------------------------------------- cases

type Case struct {
	Type    string `json:"type"`
	Init    []Op   `json:"init,omitempty"`
	Threads [][]Op `json:"threads"`
	Vals    []int  `json:"vals"`
	Runs    int    `json:"runs"`
}

// deepTypes: the same containers in states that the 2-3-value tables never reach.
//   - *Big: 300 elements held (values 10..309) and membership probes at positions around powers
//     of two (batch / chunk boundaries of an implementation that scans or copies in pieces),
//     racing with single removals and insertions; one call per thread.
//   - BsTreeDeep: a tree whose root has two children (Delete of a two-child node moves the
//     successor's key and value into the node) racing with Upsert/Get of those keys.
func deepTypes() []ctype {
	byName := map[string]ctype{}
	for _, t := range types() {
		byName[t.name] = t
	}
	pos := []int{0, 63, 64, 127, 128, 129, 255, 256, 299}
	big := func(base, name, ins, rem string, thorough bool) ctype {
		t := byName[base]
		t.name, t.maxLen, t.noLarge, t.thoroughOnly = name, 1, true, thorough
		t.inits = [][]Op{{{N: "Fill", A: 300}}}
		t.ops = func([]int) []Op {
			o := []Op{{N: rem}, {N: ins, A: 1}, {N: "Size"}, {N: "Peek"}}
			if base != "Heap" {
				for _, p := range pos {
					o = append(o, Op{N: "Search", A: 10 + p})
				}
			} else {
				for _, p := range []int{0, 127, 128, 299} {
					o = append(o, Op{N: "Delete", A: 10 + p})
				}
			}
			return o
		}
		t.probe = func([]int) []Op {
			o := []Op{{N: "Size"}, {N: "Peek"}}
			if base != "Heap" {
				for _, p := range pos {
					o = append(o, Op{N: "Search", A: 10 + p})
				}
			}
			return o
		}
		return t
	}
	deep := byName["BsTree"]
	deep.name, deep.noLarge = "BsTreeDeep", true
	deep.inits = [][]Op{{{N: "Upsert", A: 2, B: 1}, {N: "Upsert", A: 1, B: 1}, {N: "Upsert", A: 3, B: 1}},
		{{N: "Upsert", A: 4, B: 1}, {N: "Upsert", A: 2, B: 1}, {N: "Upsert", A: 6, B: 1}, {N: "Upsert", A: 1, B: 1}, {N: "Upsert", A: 3, B: 1}, {N: "Upsert", A: 5, B: 1}, {N: "Upsert", A: 7, B: 1}}}
	deep.ops = func([]int) []Op {
		// Traverse takes part as an operation: its whole visit sequence is one result that some
		// sequential order has to explain (a traversal that lets writers in half-way may skip a
		// key nobody touched)
		o := []Op{{N: "Size"}, {N: "Traverse"}}
		for _, k := range []int{2, 3, 4} {
			o = append(o, Op{N: "Upsert", A: k, B: 9}, Op{N: "Get", A: k}, Op{N: "Delete", A: k})
		}
		return o
	}
	deep.probe = func([]int) []Op {
		o := []Op{{N: "Size"}, {N: "Traverse"}}
		for k := 1; k <= 7; k++ {
			o = append(o, Op{N: "Get", A: k})
		}
		return o
	}
	deep.drain = func(inst any, rec func(Op)) {
		for k := 1; k <= 7; k++ {
			rec(Op{N: "Delete", A: k})
			rec(Op{N: "Size"})
		}
	}
	return []ctype{deep,
		big("Queue", "QueueBig", "Enqueue", "Dequeue", false),
		big("Stack", "StackBig", "Push", "Pop", false),
		big("LQueue", "LQueueBig", "Enqueue", "Dequeue", true),
		big("LStack", "LStackBig", "Push", "Pop", true),
		big("Heap", "HeapBig", "Push", "Pop", true)}
}

func allTypes() []ctype {
	return append(append(types(), deepTypes()...), cacheExpType("CacheExpired", false), cacheExpType("CacheCleanup", true))
}

func findType(name string) *ctype {
	for _, t := range allTypes() {
		if t.name == name {
			tt := t
			return &tt
		}
	}
	return nil
}

const (
	outPanic    = "PANIC"
	outDeadlock = "DEADLOCK"
)

func safeApply(t *ctype, inst any, o Op) (out string) {
	defer func() {
		if p := recover(); p != nil {
			if p == vsync.Deadlock {
				out = outDeadlock
			} else {
				out = outPanic + ":" + core.TrimPanic(p)
			}
		}
	}()
	return t.apply(inst, o)
}

// replayer: the implementation run sequentially = the specification.
type replayer struct {
	t    *ctype
	init []Op
	memo map[string]string // encoded sequence -> result of its last call
	seqs map[string][]Op
}

func (r *replayer) last(prefix string, ops []Op) string {
	if v, ok := r.memo[prefix]; ok {
		return v
	}
	inst := r.t.mk()
	for _, o := range r.init {
		safeApply(r.t, inst, o)
	}
	out := ""
	for _, o := range ops {
		out = safeApply(r.t, inst, o)
		if strings.HasPrefix(out, outPanic) {
			break
		}
	}
	r.memo[prefix] = out
	return out
}

type state struct {
	key string
	ops []Op
}

type stats struct {
	histories, illegal, unknown, withPanic, panicSequential int64
	maxSections                                             int
	sigs                                                    map[uint64]struct{}
	distinctHist                                            map[uint64]struct{}
}

func run(w *core.Worker, c Case, st *stats, seedBase uint64) {
	t := findType(c.Type)
	rp := &replayer{t: t, init: c.Init, memo: map[string]string{}}
	model := porcupine.Model{
		Init: func() interface{} { return state{} },
		Step: func(s, in, out interface{}) (bool, interface{}) {
			cur := s.(state)
			o := in.(Op)
			ns := state{key: cur.key + o.enc(), ops: append(append([]Op(nil), cur.ops...), o)}
			return rp.last(ns.key, ns.ops) == out.(string), ns
		},
		Equal: func(a, b interface{}) bool { return a.(state).key == b.(state).key },
		DescribeOperation: func(in, out interface{}) string {
			o := in.(Op)
			return fmt.Sprintf("%s(%d,%d) -> %q", o.N, o.A, o.B, out)
		},
	}
	progSigs := map[uint64]struct{}{}
	rng := core.NewRand(seedBase ^ core.HashString(core.JSON(c)))
	for runI := 0; runI < c.Runs; runI++ {
		w.Tick()
		vsync.SetMode(vsync.ModeTracked)
		vsync.BeginScenario(rng.Uint64(), true)
		inst := t.mk()
		func() {
			vsync.Register(99)
			defer vsync.Done()
			for _, o := range c.Init {
				safeApply(t, inst, o)
			}
		}()
		var clock atomic.Int64
		ops := make([][]porcupine.Operation, len(c.Threads)+1)
		start := make(chan struct{})
		var wg sync.WaitGroup
		var maxSec atomic.Int64
		order := rng.Intn(2)
		for k := range c.Threads {
			ti := k
			if order == 1 {
				ti = len(c.Threads) - 1 - k
			}
			wg.Add(1)
			go func(ti int) {
				defer wg.Done()
				vsync.Register(ti)
				defer vsync.Done()
				<-start
				for _, o := range c.Threads[ti] {
					a0 := vsync.MyAcq()
					call := clock.Add(1)
					out := safeApply(t, inst, o)
					ret := clock.Add(1)
					if d := int64(vsync.MyAcq() - a0); d > maxSec.Load() {
						maxSec.Store(d)
					}
					ops[ti] = append(ops[ti], porcupine.Operation{ClientId: ti, Input: o, Call: call, Output: out, Return: ret})
					if strings.HasPrefix(out, outPanic) || out == outDeadlock {
						return
					}
				}
			}(ti)
		}
		close(start)
		wg.Wait()
		// observation suffix, sequential
		last := len(c.Threads)
		dead := false
		rec := func(o Op) {
			if dead {
				return
			}
			call := clock.Add(1)
			out := safeApply(t, inst, o)
			ret := clock.Add(1)
			ops[last] = append(ops[last], porcupine.Operation{ClientId: last, Input: o, Call: call, Output: out, Return: ret})
			if out == outDeadlock || strings.HasPrefix(out, outPanic) {
				dead = true
			}
		}
		func() {
			vsync.Register(100)
			defer vsync.Done()
			for _, o := range t.probe(c.Vals) {
				rec(o)
			}
			t.drain(inst, rec)
		}()
		res := vsync.EndScenario()
		vsync.SetMode(vsync.ModeOff)
		st.sigs[res.Signature] = struct{}{}
		progSigs[res.Signature] = struct{}{}
		if int(maxSec.Load()) > st.maxSections {
			st.maxSections = int(maxSec.Load())
		}

		var hist []porcupine.Operation
		var sb strings.Builder
		hasPanic, hasDead := false, false
		for _, th := range ops {
			for _, o := range th {
				hist = append(hist, o)
				out := o.Output.(string)
				fmt.Fprintf(&sb, "%d:%s@%d-%d=%s|", o.ClientId, o.Input.(Op).enc(), o.Call, o.Return, out)
				if strings.HasPrefix(out, outPanic) {
					hasPanic = true
				}
				if out == outDeadlock {
					hasDead = true
				}
			}
		}
		st.histories++
		st.distinctHist[core.HashString(sb.String())] = struct{}{}
		describe := func() string {
			var d strings.Builder
			for ti, th := range ops {
				name := fmt.Sprintf("thread %d", ti)
				if ti == last {
					name = "observation (sequential, after all threads finished)"
				}
				fmt.Fprintf(&d, "%s:", name)
				for _, o := range th {
					op := o.Input.(Op)
					fmt.Fprintf(&d, " [%d,%d] %s(%d,%d)=%q", o.Call, o.Return, op.N, op.A, op.B, o.Output)
				}
				d.WriteString("\n")
			}
			return d.String()
		}
		if hasPanic {
			st.withPanic++
			// sequential matter? replay every interleaving-free order of the threads' calls
			if panicsSequentially(t, c) {
				st.panicSequential++
				continue
			}
			w.Violation(sigPrefix(w)+".panic-only-under-concurrency:"+c.Type, fmt.Sprintf("%s: a call panicked in the concurrent run but in no sequential order of the same calls\n%s", c.Type, describe()))
			return
		}
		if hasDead {
			w.Violation(sigPrefix(w)+".deadlock:"+c.Type, fmt.Sprintf("%s: logical deadlock (every live thread stuck in a failing acquire loop)\n%s", c.Type, describe()))
			return
		}
		r, _ := porcupine.CheckOperationsVerbose(model, hist, 5*time.Second)
		switch r {
		case porcupine.Illegal:
			st.illegal++
			var names []string
			for _, th := range c.Threads {
				for _, o := range th {
					if strings.Contains("Push Pop Enqueue Dequeue Clear Delete Upsert Put Set Update DeleteExpired", o.N) {
						names = append(names, o.N) // the mutators of the program name the class of the witness
					}
				}
			}
			sort.Strings(names)
			names = uniq(names)
			w.Violation(sigPrefix(w)+".not-linearizable:"+c.Type+":"+strings.Join(names, "+"), fmt.Sprintf("%s: no order of the concurrent calls that respects real-time precedence makes the sequential implementation return these results and leave these contents (init %v)\n%s", c.Type, c.Init, describe()))
			return
		case porcupine.Unknown:
			st.unknown++
			w.R.Inconclusive(1, "porcupine-timeout")
		}
	}
	w.Count("distinct_interleaving_signatures_summed_over_programs", int64(len(progSigs)))
	w.NonTrivial(core.HashString(core.JSON(c)))
	if w.WantSample() && len(progSigs) >= 3 {
		w.Sample(map[string]any{"program": c, "distinct_acquisition_orders": len(progSigs)})
	}
}

func sigPrefix(w *core.Worker) string { return strings.ToLower(w.R.Prop) }

func uniq(s []string) []string {
	var o []string
	for i, x := range s {
		if i == 0 || x != s[i-1] {
			o = append(o, x)
		}
	}
	return o
}

// panicsSequentially: does some sequential order of the program's calls panic as well?
func panicsSequentially(t *ctype, c Case) bool {
	idx := make([]int, len(c.Threads))
	var rec func(done []Op) bool
	rec = func(done []Op) bool {
		inst := t.mk()
		for _, o := range c.Init {
			safeApply(t, inst, o)
		}
		for _, o := range done {
			if strings.HasPrefix(safeApply(t, inst, o), outPanic) {
				return true
			}
		}
		for ti := range c.Threads {
			if idx[ti] < len(c.Threads[ti]) {
				o := c.Threads[ti][idx[ti]]
				idx[ti]++
				r := rec(append(append([]Op(nil), done...), o))
				idx[ti]--
				if r {
					return true
				}
			}
		}
		return false
	}
	vsync.SetMode(vsync.ModeOff)
	return rec(nil)
}


// ---------------------------------------------------------------- conservation under long runs
//
// The linearizability tables above keep programs tiny (the search is exponential), so they never
// leave the small-size regime of a container. This monitor is the complement: long concurrent
// runs with UNIQUE values (worker id * 1e6 + counter) that grow a container to thousands of
// elements and drain it again, several times, under the same seeded delays at lock boundaries;
// the oracle is offline conservation - every value handed out was put in, no value is handed out
// twice, and what was put in equals what came out plus what a final sequential drain finds
// ("no element is lost, duplicated or double-counted"). Growth, shrink and rebuild paths of the
// backing storage are crossed many times per run, whatever their thresholds are.

type ConsCase struct {
	Type    string `json:"type"`
	Workers int    `json:"workers"`
	Peak    int    `json:"peak"`
	Rounds  int    `json:"rounds"`
	Seed    uint64 `json:"seed"`
}

type bag interface {
	put(v int)
	take() (int, bool) // value, got one
	size() int
}

type stackBag struct{ s *stack.Stack[int] }

func (b stackBag) put(v int)         { b.s.Push(v) }
func (b stackBag) take() (int, bool) { v := b.s.Pop(); return v, v != 0 }
func (b stackBag) size() int         { return b.s.Size() }

// (LStack is not used as a bag: its Pop hands back the element below the one it removes - the
// recorded finding of C06 - so what it returns says nothing about what left the stack.)

type queueBag struct{ q *queue.Queue[int] }

func (b queueBag) put(v int)         { b.q.Enqueue(v) }
func (b queueBag) take() (int, bool) { v, err := b.q.Dequeue(); return v, err == nil }
func (b queueBag) size() int         { return b.q.Size() }

type lqueueBag struct{ q *queue.LQueue[int] }

func (b lqueueBag) put(v int)         { b.q.Enqueue(v) }
func (b lqueueBag) take() (int, bool) { v := b.q.Dequeue(); return v, v != 0 }
func (b lqueueBag) size() int         { return b.q.Size() }

type heapBag struct{ h *heap.Heap[int] }

func (b heapBag) put(v int)         { b.h.Push(v) }
func (b heapBag) take() (int, bool) { v := b.h.Pop(); return v, v != 0 }
func (b heapBag) size() int         { return b.h.Size() }

func mkBag(typ string) bag {
	switch typ {
	case "Stack":
		return stackBag{stack.New[int]()}
	case "Queue":
		return queueBag{queue.New[int]()}
	case "LQueue":
		q := queue.NewLinked(9)
		q.Dequeue()
		return lqueueBag{q}
	case "Heap":
		return heapBag{heap.NewHeap(func(a, b int) bool { return a < b })}
	}
	panic("bad bag type " + typ)
}

func runCons(w *core.Worker, c ConsCase) {
	vsync.SetMode(vsync.ModeTracked)
	vsync.BeginScenario(c.Seed, true)
	defer vsync.SetMode(vsync.ModeOff)
	b := mkBag(c.Type)
	put := make([][]int, c.Workers)
	got := make([][]int, c.Workers)
	dead := make([]string, c.Workers)
	var wg sync.WaitGroup
	for wi := 0; wi < c.Workers; wi++ {
		wg.Add(1)
		go func(wi int) {
			defer wg.Done()
			vsync.Register(wi)
			defer vsync.Done()
			defer func() {
				if p := recover(); p != nil {
					if p == vsync.Deadlock {
						dead[wi] = outDeadlock
					} else {
						dead[wi] = outPanic + ":" + core.TrimPanic(p)
					}
				}
			}()
			rng := core.NewRand(c.Seed ^ uint64(wi+1)*0x9e3779b97f4a7c15)
			next := wi*1_000_000 + 1
			share := c.Peak / c.Workers
			for round := 0; round < c.Rounds; round++ {
				// grow: share puts per worker, a take now and then
				for n := 0; n < share; {
					if rng.Chance(1, 8) {
						if v, ok := b.take(); ok {
							got[wi] = append(got[wi], v)
						}
						continue
					}
					b.put(next)
					put[wi] = append(put[wi], next)
					next++
					n++
				}
				// drain: share*1.2 operations, mostly takes, a put now and then (remove-then-insert
				// pairs while others are mid-call)
				for n := 0; n < share+share/5; n++ {
					if rng.Chance(1, 7) {
						b.put(next)
						put[wi] = append(put[wi], next)
						next++
						continue
					}
					if v, ok := b.take(); ok {
						got[wi] = append(got[wi], v)
					}
				}
			}
		}(wi)
	}
	wg.Wait()
	for wi, d := range dead {
		if d != "" {
			w.Violation(sigPrefix(w)+".conservation-"+strings.ToLower(strings.SplitN(d, ":", 2)[0])+":"+c.Type, fmt.Sprintf("%s: worker %d ended with %s during the long concurrent run", c.Type, wi, d))
			return
		}
	}
	// final sequential drain
	var rest []int
	func() {
		vsync.Register(100)
		defer vsync.Done()
		for n := b.size() + 8; n > 0; n-- {
			if v, ok := b.take(); ok {
				rest = append(rest, v)
			}
		}
	}()
	vsync.EndScenario()
	in := map[int]bool{}
	total := 0
	for _, p := range put {
		for _, v := range p {
			in[v] = true
			total++
		}
	}
	out := map[int]int{}
	nOut := 0
	for _, g := range append(got, rest) {
		for _, v := range g {
			out[v]++
			nOut++
			if !in[v] {
				w.Violation(sigPrefix(w)+".conservation-foreign-value:"+c.Type, fmt.Sprintf("%s: value %d was handed out but never put in (%d put, %d handed out)", c.Type, v, total, nOut))
				return
			}
			if out[v] > 1 {
				w.Violation(sigPrefix(w)+".conservation-duplicated:"+c.Type, fmt.Sprintf("%s: value %d was handed out twice (%d workers, peak %d)", c.Type, v, c.Workers, c.Peak))
				return
			}
		}
	}
	if nOut != total {
		lost := 0
		example := 0
		for v := range in {
			if out[v] == 0 {
				lost++
				example = v
			}
		}
		w.Violation(sigPrefix(w)+".conservation-lost:"+c.Type, fmt.Sprintf("%s: %d values were put in, %d came out (concurrent takes + final sequential drain): %d lost, e.g. %d (%d workers, peak %d, %d rounds)", c.Type, total, nOut, lost, example, c.Workers, c.Peak, c.Rounds))
		return
	}
	if n := b.size(); n != 0 {
		w.Violation(sigPrefix(w)+".conservation-size:"+c.Type, fmt.Sprintf("%s: everything came out but Size()=%d", c.Type, n))
		return
	}
	w.Count("conservation_values_put", int64(total))
	w.NonTrivial(core.HashString(core.JSON(c)))
	if w.WantSample() {
		w.Sample(map[string]any{"case": c, "values_put": total, "taken_concurrently": nOut - len(rest), "found_by_final_drain": len(rest)})
	}
}

// TestConservation is registered as a second variant of C02.
func TestConservation(t *testing.T) {
	r := core.Start(t, "C02")
	defer r.Finish()
	r.Rule("conservation: long concurrent runs (2-6 workers, unique values, containers grown to 600-6000 elements and drained again 3-8 times, puts and takes interleaved) on Stack, Queue, LQueue and Heap under the tracked sync shim; offline check: nothing handed out that was not put in, nothing handed out twice, put = taken + found by a final sequential drain, Size 0 at the end; non-trivial = every case; distinct by hash of the case")
	si, sn := r.Shard()
	core.Monitor(r, "conservation", 4, func(emit func(ConsCase)) {
		rng := r.Rand("c02-conservation")
		i := 0
		for rep := 0; rep < r.Pick(16, 160); rep++ {
			for _, typ := range []string{"Stack", "Queue", "LQueue", "Heap"} {
				c := ConsCase{Type: typ, Workers: rng.Range(2, 6), Peak: []int{600, 1500, 3000, 6000}[rng.Intn(4)], Rounds: rng.Range(3, 8), Seed: rng.Uint64()}
				if typ == "LQueue" && c.Peak > 1500 {
					c.Peak = 1500 // the linked queue appends in linear time
				}
				i++
				if i%sn == si {
					emit(c)
				}
			}
		}
	}, runCons)
}

func TestProp(t *testing.T) {
	runAll(t, "C02", append(append(types(), deepTypes()...), cacheExpType("CacheExpired", false)))
}

// TestCacheCleanup is the concurrent half of C08 (registered as a variant of that check):
// Set/Get/Update/Delete/Count/DeleteExpired/IsExpired racing on a cache that starts with
// expired-but-unpurged entries must be explainable by a sequential order - in particular a
// purge never removes an entry that a racing Set/Update has just made live.
func TestCacheCleanup(t *testing.T) {
	runAll(t, "C08", []ctype{cacheExpType("CacheCleanup", true)})
}

func runAll(t *testing.T, prop string, all []ctype) {
	r := core.Start(t, prop)
	defer r.Finish()
	r.Rule("case = one concurrent program (2 threads x <=2 calls, or 3 threads x 1 call, over a type's single-element operations and a 2-value alphabet (thorough: 3), small initial states, plus seeded larger programs of 3 threads x 2-3 calls and 4 threads x 2 calls) executed `runs` times under the tracked sync shim (seeded yields/µs-sleeps between critical sections, never inside one); every execution yields a history = call/return stamps from one atomic counter + results, extended by a sequential observation suffix (size, every key, listing, drain); each history is checked with porcupine against the implementation itself replayed sequentially; distinct = program; non-trivial = every program (>= 2 threads); evidence counts histories, distinct histories, distinct lock-acquisition orders, porcupine verdicts")

	si, sn := r.Shard()
	w := r.NewWorker("linearizability")
	defer r.Done(w)
	st := &stats{sigs: map[uint64]struct{}{}, distinctHist: map[uint64]struct{}{}}
	runs := r.Pick(16, 48)

	if o := r.Only(); o != nil {
		var c Case
		if err := json.Unmarshal(o.Case, &c); err != nil || c.Type == "" {
			return
		}
		c.Runs *= 8
		w.Begin(c, true)
		run(w, c, st, r.Seed())
		return
	}

	pi := 0
	for ti := range all {
		ct := &all[ti]
		if ct.thoroughOnly && r.Quick() {
			continue
		}
		vals := []int{1, 2}
		if !r.Quick() {
			vals = []int{1, 2, 3}
		}
		alpha := ct.ops(vals)
		if !r.Quick() && len(alpha) > 12 {
			// keep the 3-value thorough tables tractable: drop the second value variant of writers
			var a2 []Op
			for _, o := range alpha {
				if o.B == 2 && o.A == 3 {
					continue
				}
				a2 = append(a2, o)
			}
			alpha = a2
		}
		inits := [][]Op{nil}
		// small initial states built from the type's first mutator
		var mut []Op
		for _, o := range alpha {
			if strings.Contains("Push Enqueue Upsert Put Set", o.N) {
				mut = append(mut, o)
			}
		}
		if ct.inits != nil {
			inits = ct.inits
		} else if len(mut) > 0 {
			inits = append(inits, []Op{mut[0]})
			if len(mut) > 1 {
				inits = append(inits, []Op{mut[0], mut[len(mut)-1]})
			}
		}
		var threads [][]Op
		tl := ct.maxLen
		if tl == 0 {
			tl = 2
		}
		seq.Enum(alpha, tl, func(s []Op) { threads = append(threads, s) })
		// the cleanup type is the concurrent half of C08: its quick tier keeps the programs in
		// which a purge or an expiry query takes part (the rest is the CacheExpired type of C02)
		cleanupOnly := ct.name == "CacheCleanup" && r.Quick()
		emit := func(c Case) {
			if cleanupOnly {
				has := false
				for _, th := range c.Threads {
					for _, o := range th {
						if o.N == "DeleteExpired" || o.N == "IsExpired" {
							has = true
						}
					}
				}
				if !has {
					return
				}
				c.Runs = (c.Runs + 1) / 2
			}
			if ct.name == "CacheExpired" && r.Quick() {
				c.Runs = (c.Runs + 1) / 2 // the plain Cache type runs the same calls on live entries at full count
			}
			pi++
			if r.Saturated() || pi%sn != si {
				return
			}
			w.Begin(c, true)
			run(w, c, st, r.Seed())
		}
		for _, in := range inits {
			for a := 0; a < len(threads); a++ {
				for b := a; b < len(threads); b++ {
					emit(Case{Type: ct.name, Init: in, Threads: [][]Op{threads[a], threads[b]}, Vals: vals, Runs: runs})
				}
			}
			for a := 0; a < len(alpha); a++ {
				for b := a; b < len(alpha); b++ {
					for c := b; c < len(alpha); c++ {
						emit(Case{Type: ct.name, Init: in, Threads: [][]Op{{alpha[a]}, {alpha[b]}, {alpha[c]}}, Vals: vals, Runs: runs})
					}
				}
			}
		}
		// seeded larger histories
		rng := r.Rand("c02-large-" + ct.name)
		for k := r.Pick(150, 3000); k > 0 && !ct.noLarge; k-- {
			nt := rng.Range(3, 4)
			c := Case{Type: ct.name, Vals: vals, Runs: r.Pick(8, 24)}
			maxCalls := 3 // keeps the search over linearizations tractable (states are call sequences: no merging)
			if nt == 4 {
				maxCalls = 2
			}
			if ct.inits != nil {
				c.Init = ct.inits[rng.Intn(len(ct.inits))]
			} else {
				for i := rng.Intn(3); i > 0 && len(mut) > 0; i-- {
					c.Init = append(c.Init, mut[rng.Intn(len(mut))])
				}
			}
			for i := 0; i < nt; i++ {
				var th []Op
				for n := rng.Range(2, maxCalls); n > 0; n-- {
					th = append(th, alpha[rng.Intn(len(alpha))])
				}
				c.Threads = append(c.Threads, th)
			}
			emit(c)
		}
	}
	r.Extra("shim_fast_goid", fmt.Sprint(vsync.GoidFast()))
	r.Extra("histories_checked", float64(st.histories))
	r.Extra("distinct_histories", float64(len(st.distinctHist)))
	r.Extra("distinct_lock_acquisition_orders", float64(len(st.sigs)))
	r.Extra("porcupine_illegal", float64(st.illegal))
	r.Extra("porcupine_unknown", float64(st.unknown))
	r.Extra("histories_with_panic", float64(st.withPanic))
	r.Extra("histories_with_panic_explained_sequentially", float64(st.panicSequential))
	r.Extra(fmt.Sprintf("max_critical_sections_in_one_call_shard%d", si), float64(st.maxSections))
	r.Count("histories_checked", st.histories)
	_ = os.Getenv
}
