// C07 — LRU cache never exceeds capacity and evicts exactly the least recently
// used entry (DESIGN §4 C07). Oracle: reference-model trace monitor (recency list).
package c07

import (
	"fmt"
	"math"
	"testing"

	"github.com/esimov/gogu/cache"

	"verif/internal/core"
	"verif/internal/seq"
)

type Op struct {
	K   string `json:"op"` // add get remove oldest youngest rmoldest rmyoungest flush
	Key int    `json:"key,omitempty"`
}

type Case struct {
	// NaN: the cache is keyed by float64 and key 0 stands for NaN - a key that equals no key, itself
	// included: every Add of it is a new entry, no Get/Remove ever finds it, eviction still hands it back
	NaN  bool `json:"nan,omitempty"`
	Cap  int  `json:"cap"`
	Keys int  `json:"keys"`
	Ops  []Op `json:"ops"`
}

type ent struct{ k, v int }

// model: index 0 = most recently touched.
type model struct {
	cap int
	nan bool
	l   []ent
}

func (m *model) find(k int) int {
	if m.nan && k == 0 {
		return -1
	}
	for i, e := range m.l {
		if e.k == k {
			return i
		}
	}
	return -1
}

func (m *model) front(i int) {
	e := m.l[i]
	copy(m.l[1:i+1], m.l[:i])
	m.l[0] = e
}

func run(w *core.Worker, c Case) {
	if c.NaN {
		runK(w, c, func(id int) float64 {
			if id == 0 {
				return math.NaN()
			}
			return float64(id) + 0.5
		}, func(g float64, id int) bool {
			if id == 0 {
				return g != g
			}
			return g == float64(id)+0.5
		})
		return
	}
	runK(w, c, func(id int) int { return id }, func(g int, id int) bool { return g == id })
}

func runK[K comparable](w *core.Worker, c Case, toKey func(int) K, same func(K, int) bool) {
	var zk K
	lru, err := cache.NewLRU[K, int](c.Cap)
	if err != nil || lru == nil {
		w.Violation("lru.new-rejected-positive", fmt.Sprintf("NewLRU(%d) = %v, %v", c.Cap, lru, err))
		return
	}
	m := &model{cap: c.Cap, nan: c.NaN}
	evictions, refreshes := 0, 0

	check := func(step int, what string, gk K, gv int, gok bool, wk, wv int, wok bool) bool {
		if gok != wok || (wok && (!same(gk, wk) || gv != wv)) || (!wok && (gk != zk || gv != 0)) {
			w.Violation("lru."+what, fmt.Sprintf("step %d: %s returned (%v,%d,%v), model says (key #%d,%d,%v); model recency (most recent first) %v", step, what, gk, gv, gok, wk, wv, wok, m.l))
			return false
		}
		return true
	}
	cheap := func(step int) bool {
		if got := lru.Count(); got != len(m.l) || got > c.Cap {
			w.Violation("lru.count", fmt.Sprintf("after step %d: Count()=%d, model holds %d (capacity %d)", step, got, len(m.l), c.Cap))
			return false
		}
		k, v, ok := lru.GetYoungest()
		if len(m.l) == 0 {
			return check(step, "GetYoungest", k, v, ok, 0, 0, false)
		}
		return check(step, "GetYoungest", k, v, ok, m.l[0].k, m.l[0].v, true)
	}

	for i, op := range c.Ops {
		good := true
		p := core.Catch(func() {
			switch op.K {
			case "add":
				val := 100 + i
				ek, ev, evicted := lru.Add(toKey(op.Key), val)
				if j := m.find(op.Key); j >= 0 {
					m.l[j].v = val
					m.front(j)
					refreshes++
					good = check(i, "Add(existing)", ek, ev, evicted, 0, 0, false)
				} else {
					m.l = append([]ent{{op.Key, val}}, m.l...)
					if len(m.l) > m.cap {
						old := m.l[len(m.l)-1]
						m.l = m.l[:len(m.l)-1]
						evictions++
						good = check(i, "Add(evicting)", ek, ev, evicted, old.k, old.v, true)
					} else {
						good = check(i, "Add(new)", ek, ev, evicted, 0, 0, false)
					}
				}
			case "get":
				v, ok := lru.Get(toKey(op.Key))
				if j := m.find(op.Key); j >= 0 {
					good = check(i, "Get", toKey(op.Key), v, ok, op.Key, m.l[j].v, true)
					if j > 0 {
						refreshes++
					}
					m.front(j)
				} else {
					good = check(i, "Get", zk, v, ok, 0, 0, false)
				}
			case "remove":
				v, ok := lru.Remove(toKey(op.Key))
				if j := m.find(op.Key); j >= 0 {
					good = check(i, "Remove", toKey(op.Key), v, ok, op.Key, m.l[j].v, true)
					m.l = append(m.l[:j], m.l[j+1:]...)
				} else {
					good = check(i, "Remove", zk, v, ok, 0, 0, false)
				}
			case "oldest":
				k, v, ok := lru.GetOldest()
				if n := len(m.l); n > 0 {
					good = check(i, "GetOldest", k, v, ok, m.l[n-1].k, m.l[n-1].v, true)
					if n > 1 {
						refreshes++
					}
					m.front(n - 1)
				} else {
					good = check(i, "GetOldest", k, v, ok, 0, 0, false)
				}
			case "youngest":
				good = cheap(i)
			case "rmoldest":
				k, v, ok := lru.RemoveOldest()
				if n := len(m.l); n > 0 {
					good = check(i, "RemoveOldest", k, v, ok, m.l[n-1].k, m.l[n-1].v, true)
					m.l = m.l[:n-1]
				} else {
					good = check(i, "RemoveOldest", k, v, ok, 0, 0, false)
				}
			case "rmyoungest":
				k, v, ok := lru.RemoveYoungest()
				if n := len(m.l); n > 0 {
					good = check(i, "RemoveYoungest", k, v, ok, m.l[0].k, m.l[0].v, true)
					m.l = m.l[1:]
				} else {
					good = check(i, "RemoveYoungest", k, v, ok, 0, 0, false)
				}
			case "flush":
				lru.Flush()
				m.l = nil
			}
		})
		if p != nil {
			w.Violation("lru.panic:"+op.K, fmt.Sprintf("step %d %+v panicked: %v", i, op, p))
			return
		}
		if !good || !cheap(i) {
			return
		}
	}
	// final drain by RemoveOldest exposes any map/list disagreement and the full recency order
	p := core.Catch(func() {
		for n := len(m.l); n > 0; n-- {
			k, v, ok := lru.RemoveOldest()
			if !check(len(c.Ops), "drain-RemoveOldest", k, v, ok, m.l[n-1].k, m.l[n-1].v, true) {
				panic("stop")
			}
			m.l = m.l[:n-1]
			if got := lru.Count(); got != len(m.l) {
				w.Violation("lru.count", fmt.Sprintf("during the drain: Count()=%d, model holds %d", got, len(m.l)))
				panic("stop")
			}
		}
		k, v, ok := lru.RemoveOldest()
		if !check(len(c.Ops), "drain-RemoveOldest(empty)", k, v, ok, 0, 0, false) {
			panic("stop")
		}
		for key := 0; key < c.Keys; key++ {
			if v, ok := lru.Get(toKey(key)); ok {
				w.Violation("lru.ghost-entry", fmt.Sprintf("after a complete drain Get(%d) still finds value %d", key, v))
				panic("stop")
			}
		}
	})
	if p != nil && p != "stop" {
		w.Violation("lru.panic:drain", fmt.Sprintf("drain panicked: %v", p))
		return
	}
	if p != nil {
		return
	}
	if evictions > 0 || refreshes > 0 {
		w.NonTrivial(core.HashString(core.JSON(c)))
	}
	if evictions > 0 {
		w.Count("cases_with_eviction", 1)
	}
	if w.WantSample() && evictions > 0 && refreshes > 0 && len(c.Ops) >= 5 {
		w.Sample(c)
	}
}

type NewCase struct {
	Size int `json:"size"`
}

func runNew(w *core.Worker, c NewCase) {
	lru, err := cache.NewLRU[string, int](c.Size)
	if c.Size <= 0 {
		if err == nil || lru != nil {
			w.Violation("lru.new-accepted-nonpositive", fmt.Sprintf("NewLRU(%d) = %v, err=%v", c.Size, lru, err))
		}
	} else if err != nil || lru == nil {
		w.Violation("lru.new-rejected-positive", fmt.Sprintf("NewLRU(%d) = %v, err=%v", c.Size, lru, err))
	}
	w.NonTrivial(uint64(c.Size + 1000))
}

func alphabet(keys int) []Op {
	var a []Op
	for k := 0; k < keys; k++ {
		a = append(a, Op{"add", k}, Op{"get", k}, Op{"remove", k})
	}
	return append(a, Op{K: "oldest"}, Op{K: "youngest"}, Op{K: "rmoldest"}, Op{K: "rmyoungest"}, Op{K: "flush"})
}


// FuzzLRU (thorough tier): coverage-guided fuzzing over operation scripts with capacities 1..20
// and 64..319, same run oracle.
func FuzzLRU(f *testing.F) {
	f.Add(uint8(2), []byte{0, 1, 0, 2, 0, 3, 1, 1, 0, 4, 5, 0, 6, 0})
	f.Add(uint8(200), []byte{0, 9, 0, 200, 1, 9, 2, 200, 7, 0, 0, 1})
	f.Fuzz(func(t *testing.T, capSel uint8, data []byte) {
		if len(data) > 400 {
			data = data[:400]
		}
		cp := int(capSel)%20 + 1
		if capSel >= 128 {
			cp = 64 + int(capSel)
		}
		keys := cp + cp/2 + 2
		c := Case{Cap: cp, Keys: keys}
		names := []string{"add", "get", "remove", "oldest", "youngest", "rmoldest", "rmyoungest", "flush", "add", "add", "get"}
		for i := 0; i+1 < len(data); i += 2 {
			c.Ops = append(c.Ops, Op{names[int(data[i])%len(names)], int(data[i+1]) * 7 % keys})
		}
		if len(c.Ops) == 0 {
			return
		}
		w := core.Probe(func(sig, detail string) { t.Fatalf("VERIF-SIG %s\nVERIF-CASE %s\n%s", sig, core.JSON(c), detail) })
		run(w, c)
	})
}

func TestProp(t *testing.T) {
	r := core.Start(t, "C07")
	defer r.Finish()
	r.Rule("cases = operation sequences on cache.LRUCache[int,int] checked against a recency-list model: every return value (incl. the evicted entry of Add), Count <= capacity and GetYoungest after every step, and a final drain by RemoveOldest (full recency order, map/list agreement, no ghost entries); non-trivial = at least one eviction or recency refresh; distinct by hash of (capacity, ops); lru-nan-keys: the same on cache.LRUCache[float64,int] with NaN among the keys; lru-new: NewLRU(n) for n in -4..4")

	core.Monitor(r, "lru-sweep", 0, func(emit func(Case)) {
		type cfg struct {
			keys, l int
			caps    []int
		}
		cfgs := []cfg{{3, r.Pick(5, 6), []int{1, 2, 3}}, {5, r.Pick(4, 5), []int{3, 4}}}
		for _, cf := range cfgs {
			a := alphabet(cf.keys)
			for _, cp := range cf.caps {
				n := seq.Enum(a, cf.l, func(ops []Op) { emit(Case{Cap: cp, Keys: cf.keys, Ops: ops}) })
				r.Exhaustive(fmt.Sprintf("all sequences of length<=%d over the 8 operations on %d keys, capacity %d", cf.l, cf.keys, cp), n)
			}
		}
	}, run)

	nRand := r.Pick(30000, 1000000)
	core.Monitor(r, "lru-random", 0, func(emit func(Case)) {
		rng := r.Rand("c07-random")
		for i := 0; i < nRand; i++ {
			cp := rng.Range(1, 16)
			keys := cp + rng.Range(1, 6)
			nops := rng.Range(6, 80)
			if i%400 == 399 { // large caches: hundreds of entries, thousands of operations
				cp = []int{64, 129, 300, 1000}[rng.Intn(4)]
				keys = cp + rng.Range(1, cp)
				nops = rng.Range(3*cp, 6*cp)
			}
			c := Case{Cap: cp, Keys: keys}
			for n := nops; n > 0; n-- {
				switch x := rng.Intn(20); {
				case x < 8:
					c.Ops = append(c.Ops, Op{"add", rng.Intn(keys)})
				case x < 12:
					c.Ops = append(c.Ops, Op{"get", rng.Intn(keys)})
				case x < 14:
					c.Ops = append(c.Ops, Op{"remove", rng.Intn(keys)})
				case x < 15:
					c.Ops = append(c.Ops, Op{K: "oldest"})
				case x < 16:
					c.Ops = append(c.Ops, Op{K: "youngest"})
				case x < 17:
					c.Ops = append(c.Ops, Op{K: "rmoldest"})
				case x < 19:
					c.Ops = append(c.Ops, Op{K: "rmyoungest"})
				default:
					if rng.Chance(1, 5) {
						c.Ops = append(c.Ops, Op{K: "flush"})
					} else {
						c.Ops = append(c.Ops, Op{"add", rng.Intn(keys)})
					}
				}
			}
			emit(c)
		}
	}, run)

	// float64 keys with NaN among them (a key that can be neither found nor deleted from a Go map):
	// the capacity bound, the eviction order and Count must not depend on the keys being reflexive
	nNaN := r.Pick(6000, 200000)
	core.Monitor(r, "lru-nan-keys", 0, func(emit func(Case)) {
		a := alphabet(3)
		for _, cp := range []int{1, 2, 3} {
			n := seq.Enum(a, r.Pick(4, 5), func(ops []Op) { emit(Case{NaN: true, Cap: cp, Keys: 3, Ops: ops}) })
			r.Exhaustive(fmt.Sprintf("float64 keys {NaN, 1.5, 2.5}: all sequences of length<=%d over the 8 operations, capacity %d", r.Pick(4, 5), cp), n)
		}
		rng := r.Rand("c07-nan")
		for i := 0; i < nNaN; i++ {
			cp := rng.Range(1, 8)
			keys := cp + rng.Range(1, 4)
			c := Case{NaN: true, Cap: cp, Keys: keys}
			ops := []string{"add", "add", "add", "add", "get", "remove", "oldest", "youngest", "rmoldest", "rmyoungest", "add", "get"}
			for n := rng.Range(6, 60); n > 0; n-- {
				k := rng.Intn(keys)
				if rng.Chance(1, 3) {
					k = 0
				}
				o := ops[rng.Intn(len(ops))]
				if rng.Chance(1, 60) {
					o = "flush"
				}
				c.Ops = append(c.Ops, Op{o, k})
			}
			emit(c)
		}
	}, run)

	core.Monitor(r, "lru-new", 1, func(emit func(NewCase)) {
		for n := -4; n <= 4; n++ {
			emit(NewCase{n})
		}
	}, runNew)
}
