// C16 — helpers do not disturb their arguments or each other's results
// (DESIGN §4 C16). Oracle: shadow copies of every argument including the
// capacity region behind it (sentinel-filled backing arrays) compared after the
// call; earlier results re-read after later calls.
package c16

import (
	"fmt"
	"go/ast"
	"go/parser"
	"go/token"
	"os"
	"path/filepath"
	"reflect"
	"runtime"
	"sort"
	"strings"
	"testing"
	"unsafe"

	"github.com/esimov/gogu"
	"github.com/esimov/gogu/heap"

	"verif/internal/core"
)

const sentinel = -7000

// fixture: a slice argument placed inside a larger backing array.
type fixture struct {
	arr  []int
	off  int
	n    int
	cap_ int
	snap []int
}

func newFixture(vals []int, spare int) *fixture {
	const pad = 2
	f := &fixture{off: pad, n: len(vals), cap_: len(vals) + spare}
	f.arr = make([]int, pad+len(vals)+spare+pad)
	for i := range f.arr {
		f.arr[i] = sentinel - i
	}
	copy(f.arr[pad:], vals)
	f.snap = append([]int{}, f.arr...)
	return f
}

func (f *fixture) slice() []int { return f.arr[f.off : f.off+f.n : f.off+f.cap_] }

// diff reports where the backing array differs from the snapshot. allowInPlace
// permits changes inside [off, off+n) (the argument's own elements).
func (f *fixture) diff(allowInPlace bool) string {
	for i := range f.arr {
		if f.arr[i] != f.snap[i] {
			in := i >= f.off && i < f.off+f.n
			if in && allowInPlace {
				continue
			}
			region := "element"
			if i < f.off {
				region = "memory before the slice"
			} else if i >= f.off+f.n && i < f.off+f.cap_ {
				region = "spare capacity behind the slice"
			} else if i >= f.off+f.cap_ {
				region = "memory beyond the capacity"
			}
			return fmt.Sprintf("%s at backing index %d (slice index %d): %d -> %d", region, i, i-f.off, f.snap[i], f.arr[i])
		}
	}
	return ""
}

type Case struct {
	A     string         `json:"a"`            // adapter
	B     string         `json:"b,omitempty"`  // second adapter (pair case)
	S     [][]int        `json:"s"`            // slice arguments (first one is shared in pair cases)
	S2    [][]int        `json:"s2,omitempty"` // the second call's other slice arguments
	Spare int            `json:"spare"`
	N     int            `json:"n"`
	N2    int            `json:"n2,omitempty"`
	Panic int            `json:"callback_panics_at,omitempty"` // > 0: the callback panics on that invocation
	M     map[string]int `json:"m,omitempty"`
}

type args struct {
	s       []*fixture
	m       map[string]int
	n       int
	spare   int
	tracked []*tracked
	// callbacks handed to the helper observe the arguments WHILE the helper runs
	inPlaceIdx int    // slice argument the helper may rewrite (-1: none)
	mapInPlace bool   // the helper may rewrite the map argument
	mcopy      any    // deep copy of the map argument before the call
	calls      int    // callback invocations so far
	panicAt    int    // > 0: the callback panics on that invocation (the caller recovers)
	during     string // first disturbance seen from inside a callback
	env        *env
}

type cbPanic struct{}

// observe is called from inside every callback: a helper that is not in place must not have
// touched its arguments at that moment either (a "rearrange and restore afterwards"
// implementation shows here), and it may be asked to panic to see what an aborted call leaves.
func (a *args) observe() {
	a.calls++
	if a.during == "" {
		for i, f := range a.s {
			if d := f.diff(i == a.inPlaceIdx); d != "" {
				a.during = fmt.Sprintf("slice argument %d, seen from inside callback invocation %d: %s", i, a.calls, d)
				break
			}
		}
		if a.during == "" && !a.mapInPlace && a.mcopy != nil && !reflect.DeepEqual(a.m, a.mcopy) {
			a.during = fmt.Sprintf("map argument, seen from inside callback invocation %d: %v became %v", a.calls, a.mcopy, a.m)
		}
	}
	if a.panicAt > 0 && a.calls == a.panicAt {
		panic(cbPanic{})
	}
}

func (a *args) even(x int) bool  { a.observe(); return x%2 == 0 }
func (a *args) inc(x int) int    { a.observe(); return x + 1 }
func (a *args) mod2(x int) int   { a.observe(); return ((x % 2) + 2) % 2 }
func (a *args) veven(v int) bool { a.observe(); return v%2 == 0 }

// tracked is an outer container handed to a helper (the [][]T behind a spread variadic
// parameter, a []map collection): sig describes its slots shallowly (which inner slice /
// map sits where, including the spare capacity behind its length).
type tracked struct {
	what   string
	sig    func() string
	before string
}

var sentinelSlice = []int{sentinel, sentinel - 1}
var sentinelMap = map[string]int{"sentinel": sentinel}

// outer builds the [][]int for a spread variadic parameter from the slice arguments
// from..from+k-1, with spare capacity filled with a sentinel slice, and tracks it.
func (a *args) outer(inner ...[]int) [][]int {
	o := make([][]int, len(inner), len(inner)+a.spare)
	copy(o, inner)
	full := o[:cap(o)]
	for i := len(inner); i < len(full); i++ {
		full[i] = sentinelSlice
	}
	t := &tracked{what: "slice of slices passed as spread variadic argument", sig: func() string {
		var b strings.Builder
		for _, x := range full {
			fmt.Fprintf(&b, "[%p len=%d cap=%d]", unsafe.SliceData(x), len(x), cap(x))
		}
		return b.String()
	}}
	t.before = t.sig()
	a.tracked = append(a.tracked, t)
	return o
}

// maps builds a tracked []map collection.
func (a *args) maps(ms ...map[string]int) []map[string]int {
	o := make([]map[string]int, len(ms), len(ms)+a.spare)
	copy(o, ms)
	full := o[:cap(o)]
	for i := len(ms); i < len(full); i++ {
		full[i] = sentinelMap
	}
	t := &tracked{what: "slice of maps argument", sig: func() string {
		var b strings.Builder
		for _, x := range full {
			fmt.Fprintf(&b, "[%x len=%d]", reflect.ValueOf(x).Pointer(), len(x))
		}
		return b.String()
	}}
	t.before = t.sig()
	a.tracked = append(a.tracked, t)
	return o
}

// keys builds a tracked []string for a spread variadic key list (Omit(m, ks...), Pick(m, ks...)).
func (a *args) keys(ks ...string) []string {
	o := make([]string, len(ks), len(ks)+a.spare)
	copy(o, ks)
	full := o[:cap(o)]
	for i := len(ks); i < len(full); i++ {
		full[i] = "sentinel"
	}
	t := &tracked{what: "key list passed as spread variadic argument", sig: func() string { return strings.Join(full, "|") }}
	t.before = t.sig()
	a.tracked = append(a.tracked, t)
	return o
}

// env carries what two calls of a pair share besides the first argument: one function made
// by Flip (its results must not share storage from one call to the next).
type env struct{ flip func(...int) []int }

func (a *args) flipped() func(...int) []int {
	if a.env == nil {
		a.env = &env{}
	}
	if a.env.flip == nil {
		a.env.flip = gogu.Flip(func(xs ...int) []int { return append([]int{}, xs...) })
	}
	return a.env.flip
}

// m2 is a second map for collections (derived from the map argument, never handed out twice).
func (a *args) m2() map[string]int {
	o := map[string]int{"a": a.n, "zz": 1}
	for k, v := range a.m {
		o[k+"'"] = v + 1
	}
	return o
}

func (a *args) sl(i int) []int {
	if i < len(a.s) {
		return a.s[i].slice()
	}
	return []int{}
}

type adapter struct {
	name    string
	inPlace int // index of the slice argument that may change in place (-1: none); -2: the map argument
	slices  int // number of slice arguments used
	call    func(a *args) any
}

func even(x int) bool  { return x%2 == 0 }
func inc(x int) int    { return x + 1 }
func mod2(x int) int   { return ((x % 2) + 2) % 2 }
func veven(v int) bool { return v%2 == 0 }

var adapters = []adapter{
	{"Sum", -1, 1, func(a *args) any { return gogu.Sum(a.sl(0)) }},
	{"SumBy", -1, 1, func(a *args) any { return gogu.SumBy(a.sl(0), a.inc) }},
	{"Mean", -1, 1, func(a *args) any {
		if len(a.sl(0)) == 0 {
			return 0
		}
		return gogu.Mean(a.sl(0))
	}},
	{"IndexOf", -1, 1, func(a *args) any { return gogu.IndexOf(a.sl(0), a.n) }},
	{"LastIndexOf", -1, 1, func(a *args) any { return gogu.LastIndexOf(a.sl(0), a.n) }},
	{"Map", -1, 1, func(a *args) any { return gogu.Map(a.sl(0), a.inc) }},
	{"ForEach", -1, 1, func(a *args) any { gogu.ForEach(a.sl(0), func(int) { a.observe() }); return nil }},
	{"ForEachRight", -1, 1, func(a *args) any { gogu.ForEachRight(a.sl(0), func(int) { a.observe() }); return nil }},
	{"Reduce", -1, 1, func(a *args) any { return gogu.Reduce(a.sl(0), func(x, acc int) int { a.observe(); return acc + x }, 0) }},
	{"Reverse", 0, 1, func(a *args) any { return gogu.Reverse(a.sl(0)) }},
	{"Unique", -1, 1, func(a *args) any { return gogu.Unique(a.sl(0)) }},
	{"UniqueBy", -1, 1, func(a *args) any { return gogu.UniqueBy(a.sl(0), a.mod2) }},
	{"Every", -1, 1, func(a *args) any { return gogu.Every(a.sl(0), a.even) }},
	{"Some", -1, 1, func(a *args) any { return gogu.Some(a.sl(0), a.even) }},
	{"Partition", -1, 1, func(a *args) any { return gogu.Partition(a.sl(0), a.even) }},
	{"Contains", -1, 1, func(a *args) any { return gogu.Contains(a.sl(0), a.n) }},
	{"Duplicate", -1, 1, func(a *args) any { return gogu.Duplicate(a.sl(0)) }},
	{"DuplicateWithIndex", -1, 1, func(a *args) any { return gogu.DuplicateWithIndex(a.sl(0)) }},
	{"Merge", -1, 3, func(a *args) any { return gogu.Merge(a.sl(0), a.sl(1), a.sl(2)) }},
	{"Merge1", -1, 2, func(a *args) any { return gogu.Merge(a.sl(0), a.sl(1)) }},
	{"Merge...", -1, 3, func(a *args) any { return gogu.Merge(a.sl(0), a.outer(a.sl(1), a.sl(2))...) }},
	{"Intersection...", -1, 3, func(a *args) any { return gogu.Intersection(a.outer(a.sl(0), a.sl(1), a.sl(2))...) }},
	{"IntersectionBy...", -1, 3, func(a *args) any { return gogu.IntersectionBy(a.mod2, a.outer(a.sl(0), a.sl(1), a.sl(2))...) }},
	{"Zip...", -1, 3, func(a *args) any {
		x, y, z := a.sl(0), a.sl(1), a.sl(2)
		if len(x) < 3 || len(y) < 3 || len(z) < 3 {
			return nil
		}
		return gogu.Zip(a.outer(x[:3], y[:3], z[:3])...)
	}},
	{"Unzip...", -1, 3, func(a *args) any {
		x, y, z := a.sl(0), a.sl(1), a.sl(2)
		if len(x) < 3 || len(y) < 3 || len(z) < 3 {
			return nil
		}
		return gogu.Unzip(a.outer(x[:3], y[:3], z[:3])...)
	}},
	{"Flatten", -1, 2, func(a *args) any { r, _ := gogu.Flatten[int]([]any{a.sl(0), []any{a.sl(1), 5}}); return r }},
	{"Union", -1, 2, func(a *args) any { r, _ := gogu.Union[int]([]any{a.sl(0), a.sl(1)}); return r }},
	{"Intersection", -1, 3, func(a *args) any { return gogu.Intersection(a.sl(0), a.sl(1), a.sl(2)) }},
	{"IntersectionBy", -1, 2, func(a *args) any { return gogu.IntersectionBy(a.mod2, a.sl(0), a.sl(1)) }},
	{"Without", -1, 2, func(a *args) any { return gogu.Without[int, int](a.sl(0), a.sl(1)...) }},
	{"Difference", -1, 2, func(a *args) any { return gogu.Difference(a.sl(0), a.sl(1)) }},
	{"DifferenceBy", -1, 2, func(a *args) any { return gogu.DifferenceBy(a.sl(0), a.sl(1), a.mod2) }},
	{"Chunk", -1, 1, func(a *args) any { return gogu.Chunk(a.sl(0), a.n%4+1) }},
	{"Drop", -1, 1, func(a *args) any { return gogu.Drop(a.sl(0), a.n-3) }},
	{"DropWhile", -1, 1, func(a *args) any { return gogu.DropWhile(a.sl(0), a.even) }},
	{"DropRightWhile", -1, 1, func(a *args) any { return gogu.DropRightWhile(a.sl(0), a.even) }},
	{"GroupBy", -1, 1, func(a *args) any { return gogu.GroupBy(a.sl(0), a.mod2) }},
	{"Zip", -1, 2, func(a *args) any {
		x, y := a.sl(0), a.sl(1)
		if len(x) < 2 || len(y) < 2 {
			return nil
		}
		return gogu.Zip(x[:2], y[:2])
	}},
	{"Unzip", -1, 2, func(a *args) any {
		x, y := a.sl(0), a.sl(1)
		if len(x) < 2 || len(y) < 2 {
			return nil
		}
		return gogu.Unzip(x[:2], y[:2])
	}},
	{"ToSlice", -1, 1, func(a *args) any { return gogu.ToSlice(a.sl(0)...) }},
	{"Filter", -1, 1, func(a *args) any { return gogu.Filter(a.sl(0), a.even) }},
	{"Reject", 0, 1, func(a *args) any { return gogu.Reject(a.sl(0), a.even) }},
	{"Shuffle", -1, 1, func(a *args) any { return gogu.Shuffle(a.sl(0)) }},
	{"FindIndex", -1, 1, func(a *args) any { return gogu.FindIndex(a.sl(0), a.even) }},
	{"FindLastIndex", -1, 1, func(a *args) any { return gogu.FindLastIndex(a.sl(0), a.even) }},
	{"FindAll", -1, 1, func(a *args) any { return gogu.FindAll(a.sl(0), a.even) }},
	{"FindMin", -1, 1, func(a *args) any { return gogu.FindMin(a.sl(0)) }},
	{"FindMinBy", -1, 1, func(a *args) any { return gogu.FindMinBy(a.sl(0), a.mod2) }},
	{"FindMax", -1, 1, func(a *args) any { return gogu.FindMax(a.sl(0)) }},
	{"FindMaxBy", -1, 1, func(a *args) any { return gogu.FindMaxBy(a.sl(0), a.mod2) }},
	{"Nth", -1, 1, func(a *args) any { v, _ := gogu.Nth(a.sl(0), a.n-3); return v }},
	{"Min", -1, 1, func(a *args) any { return gogu.Min(a.sl(0)...) }},
	{"Max", -1, 1, func(a *args) any { return gogu.Max(a.sl(0)...) }},
	{"Range", -1, 1, func(a *args) any {
		x := a.sl(0)
		if len(x) > 3 {
			x = x[:3]
		}
		r, _ := gogu.Range(x...)
		return r
	}},
	{"RangeRight", -1, 1, func(a *args) any {
		x := a.sl(0)
		if len(x) > 3 {
			x = x[:3]
		}
		r, _ := gogu.RangeRight(x...)
		return r
	}},
	{"SliceToMap", -1, 2, func(a *args) any {
		x, y := a.sl(0), a.sl(1)
		n := len(x)
		if len(y) < n {
			n = len(y)
		}
		return gogu.SliceToMap(x[:n], y[:n])
	}},
	{"heap.FromSlice", 0, 1, func(a *args) any {
		h := heap.FromSlice(a.sl(0), func(x, y int) bool { return x < y })
		return h.Size()
	}},
	{"heap.Sort", 0, 1, func(a *args) any { return heap.Sort(a.sl(0), func(x, y int) bool { return x > y }) }},
	{"Flip", -1, 1, func(a *args) any { return a.flipped()(a.sl(0)...) }},
	{"Flip2", -1, 2, func(a *args) any { return a.flipped()(a.sl(1)...) }},
	{"heap.Sort<", 0, 1, func(a *args) any { return heap.Sort(a.sl(0), func(x, y int) bool { return x < y }) }},
	// map helpers
	{"Keys", -1, 0, func(a *args) any { return gogu.Keys(a.m) }},
	{"Values", -1, 0, func(a *args) any { return gogu.Values(a.m) }},
	{"MapValues", -1, 0, func(a *args) any { return gogu.MapValues(a.m, a.inc) }},
	{"MapKeys", -1, 0, func(a *args) any { return gogu.MapKeys(a.m, func(k string, v int) string { a.observe(); return k + "!" }) }},
	{"MapEvery", -1, 0, func(a *args) any { return gogu.MapEvery(a.m, a.veven) }},
	{"MapSome", -1, 0, func(a *args) any { return gogu.MapSome(a.m, a.veven) }},
	{"MapContains", -1, 0, func(a *args) any { return gogu.MapContains(a.m, a.n) }},
	{"MapUnique", -1, 0, func(a *args) any { return gogu.MapUnique(a.m) }},
	{"MapCollection", -1, 0, func(a *args) any { return gogu.MapCollection(a.m, a.inc) }},
	{"Find", -1, 0, func(a *args) any { return gogu.Find(a.m, a.veven) }},
	{"FindKey", -1, 0, func(a *args) any { return gogu.FindKey(a.m, a.veven) }},
	{"FindByKey", -1, 0, func(a *args) any { return gogu.FindByKey(a.m, func(k string) bool { a.observe(); return k < "c" }) }},
	{"Invert", -1, 0, func(a *args) any { return gogu.Invert(a.m) }},
	{"Pick", -1, 0, func(a *args) any { r, _ := gogu.Pick(a.m, "a", "c"); return r }},
	{"PickBy", -1, 0, func(a *args) any { return gogu.PickBy(a.m, func(k string, v int) bool { a.observe(); return veven(v) }) }},
	{"Omit", -2, 0, func(a *args) any { return gogu.Omit(a.m, "a", "c") }},
	{"OmitBy", -2, 0, func(a *args) any { return gogu.OmitBy(a.m, func(k string, v int) bool { a.observe(); return veven(v) }) }},
	{"Pick...", -1, 0, func(a *args) any { r, _ := gogu.Pick(a.m, a.keys("a", "zz", "c", "b")...); return r }},
	{"Omit...", -2, 0, func(a *args) any { return gogu.Omit(a.m, a.keys("c", "a", "zz", "b", "d")...) }},
	{"FilterMap", -1, 0, func(a *args) any { return gogu.FilterMap(a.m, a.veven) }},
	{"Pluck", -1, 0, func(a *args) any { return gogu.Pluck(a.maps(a.m, a.m2(), a.m), "a") }},
	{"PartitionMap", -1, 0, func(a *args) any {
		return gogu.PartitionMap(a.maps(a.m2(), a.m, map[string]int{}), func(m map[string]int) bool { a.observe(); return len(m) > 1 })
	}},
	{"FilterMapCollection", -1, 0, func(a *args) any { return gogu.FilterMapCollection(a.maps(a.m2(), a.m), a.veven) }},
	{"Filter2DMapCollection", -1, 0, func(a *args) any {
		return gogu.Filter2DMapCollection([]map[string]map[string]int{{"x": a.m}}, func(m map[string]int) bool { a.observe(); return len(m) > 0 })
	}},
	{"FindMinByKey", -1, 0, func(a *args) any { v, _ := gogu.FindMinByKey(a.maps(a.m2(), a.m, a.m), "a"); return v }},
	{"FindMaxByKey", -1, 0, func(a *args) any { v, _ := gogu.FindMaxByKey(a.maps(a.m, a.m2(), a.m), "a"); return v }},
}

// views: helpers that by design hand back a window of their argument (no copy). A later
// in-place helper on that argument necessarily shows through; they are excluded as first
// call of the in-place pairs (DESIGN C16 "Not asserted").
var views = map[string]bool{"Drop": true, "Chunk": true, // windows of the argument slice
	// collections of maps: the result holds the qualifying argument maps themselves
	"FilterMapCollection": true, "Filter2DMapCollection": true, "PartitionMap": true}

// immutable lists exported helpers whose arguments are strings or scalars only
// (Go strings are immutable; nothing can be disturbed).
var immutable = []string{"Null", "Flip", // Flip is exercised through the Flip/Flip2 adapters
	 "Substr", "ToLower", "ToUpper", "Capitalize", "CamelCase", "SnakeCase", "KebabCase",
	"PadLeft", "PadRight", "Pad", "SplitAtIndex", "Wrap", "Unwrap", "WrapAllRune", "ReverseStr",
	"Abs", "Clamp", "InRange", "N", "NumToString", "Compare", "Equal", "Less"}


// resultParts lists the []int parts of a composite result (slice/array of slices, map of slices).
func resultParts(res any) [][]int {
	if res == nil {
		return nil
	}
	v := reflect.ValueOf(res)
	var out [][]int
	add := func(e reflect.Value) {
		if e.Kind() == reflect.Slice && e.Type().Elem().Kind() == reflect.Int && !e.IsNil() {
			out = append(out, e.Interface().([]int))
		}
	}
	switch v.Kind() {
	case reflect.Slice, reflect.Array:
		for i := 0; i < v.Len(); i++ {
			add(v.Index(i))
		}
	case reflect.Map:
		keys := v.MapKeys()
		sort.Slice(keys, func(i, j int) bool { return fmt.Sprint(keys[i]) < fmt.Sprint(keys[j]) })
		for _, k := range keys {
			add(v.MapIndex(k))
		}
	}
	return out
}

func find(name string) *adapter {
	for i := range adapters {
		if adapters[i].name == name {
			return &adapters[i]
		}
	}
	return nil
}

func deepCopy(v any) any {
	if v == nil {
		return nil
	}
	rv := reflect.ValueOf(v)
	return cp(rv).Interface()
}

func cp(v reflect.Value) reflect.Value {
	switch v.Kind() {
	case reflect.Slice:
		if v.IsNil() {
			return v
		}
		o := reflect.MakeSlice(v.Type(), v.Len(), v.Len())
		for i := 0; i < v.Len(); i++ {
			o.Index(i).Set(cp(v.Index(i)))
		}
		return o
	case reflect.Array:
		o := reflect.New(v.Type()).Elem()
		for i := 0; i < v.Len(); i++ {
			o.Index(i).Set(cp(v.Index(i)))
		}
		return o
	case reflect.Map:
		if v.IsNil() {
			return v
		}
		o := reflect.MakeMapWithSize(v.Type(), v.Len())
		it := v.MapRange()
		for it.Next() {
			o.SetMapIndex(it.Key(), cp(it.Value()))
		}
		return o
	}
	return v
}

func mkArgs(c Case, ss [][]int) *args {
	a := &args{n: c.N, spare: c.Spare}
	for _, s := range ss {
		a.s = append(a.s, newFixture(s, c.Spare))
	}
	{
		a.m = map[string]int{}
		for k, v := range c.M {
			a.m[k] = v
		}
	}
	return a
}

func run(w *core.Worker, c Case) {
	ad := find(c.A)
	if ad == nil {
		panic("unknown adapter " + c.A)
	}
	a := mkArgs(c, c.S)
	mcopy := deepCopy(a.m)
	a.inPlaceIdx, a.mapInPlace, a.mcopy, a.panicAt = ad.inPlace, ad.inPlace == -2, mcopy, c.Panic
	var res any
	if p := core.Catch(func() { res = ad.call(a) }); p != nil {
		if _, ours := p.(cbPanic); !ours {
			// panics of the library are judged by C11-C15; here only note them
			w.Count("adapter_panics", 1)
			return
		}
		// our callback aborted the call: the arguments must be as they were all the same
		w.Count("calls_aborted_by_a_panicking_callback", 1)
		c.B = ""
	}
	if a.during != "" {
		w.Violation("c16.argument-disturbed-during-call:"+ad.name, fmt.Sprintf("%s%v: %s", ad.name, c.S, a.during))
		return
	}
	// 1. arguments after the call
	for i, f := range a.s {
		if d := f.diff(i == ad.inPlace); d != "" {
			sig := "c16.argument-disturbed:" + ad.name
			if i == ad.inPlace {
				sig = "c16.in-place-helper-wrote-outside-its-argument:" + ad.name
			}
			w.Violation(sig, fmt.Sprintf("%s: slice argument %d %v (spare capacity %d): %s", ad.name, i, c.S[i], c.Spare, d))
			return
		}
	}
	if a.m != nil && ad.inPlace != -2 && !reflect.DeepEqual(a.m, mcopy) {
		w.Violation("c16.argument-disturbed:"+ad.name, fmt.Sprintf("%s: map argument %v became %v", ad.name, mcopy, a.m))
		return
	}
	for _, t := range a.tracked {
		if now := t.sig(); now != t.before {
			w.Violation("c16.argument-disturbed:"+ad.name, fmt.Sprintf("%s: the %s was rearranged or overwritten: slots before %s, after %s (inner arguments %v)", ad.name, t.what, t.before, now, c.S))
			return
		}
	}
	// 1b. the parts of a composite result ([][]T, [2][]T, map[K][]T) must not share storage:
	// extending one part within its capacity (append, or heap.FromSlice(part) + Push) must leave
	// the other parts and the arguments alone
	if !views[ad.name] && ad.inPlace == -1 {
		if parts := resultParts(res); len(parts) >= 2 {
			for i, pt := range parts {
				if cap(pt) == len(pt) {
					continue
				}
				snap := deepCopy(res)
				_ = append(pt, sentinel-4321)
				if !reflect.DeepEqual(res, snap) {
					w.Violation("c16.result-parts-share-storage:"+ad.name, fmt.Sprintf("%s%v = %v: appending one element to part %d (len %d, cap %d) changed another part: now %v", ad.name, c.S, snap, i, len(pt), cap(pt), res))
					return
				}
				for j, f := range a.s {
					if d := f.diff(false); d != "" {
						w.Violation("c16.result-parts-share-storage:"+ad.name, fmt.Sprintf("%s%v: appending to part %d of the result wrote into slice argument %d: %s", ad.name, c.S, i, j, d))
						return
					}
				}
			}
		}
	}
	// 2. an earlier result after a later call on the same (first) argument
	if c.B != "" {
		bd := find(c.B)
		snap := deepCopy(res)
		b := &args{n: c.N2, m: a.m, spare: c.Spare, env: a.env}
		if len(a.s) > 0 {
			b.s = append(b.s, a.s[0])
			for _, s := range c.S2 {
				b.s = append(b.s, newFixture(s, c.Spare))
			}
		}
		if p := core.Catch(func() { bd.call(b) }); p != nil {
			w.Count("adapter_panics", 1)
			return
		}
		for _, t := range b.tracked {
			if now := t.sig(); now != t.before {
				w.Violation("c16.argument-disturbed:"+bd.name, fmt.Sprintf("%s (second call): the %s was rearranged or overwritten", bd.name, t.what))
				return
			}
		}
		if !reflect.DeepEqual(res, snap) {
			w.Violation("c16.earlier-result-altered:"+ad.name+"<-"+bd.name, fmt.Sprintf("result of %s%v was %v, after the later call %s(same first argument, others %v) it reads %v", ad.name, c.S, snap, bd.name, c.S2, res))
			return
		}
		for i, f := range b.s {
			if d := f.diff(i == bd.inPlace || (i == 0 && ad.inPlace == 0)); d != "" {
				w.Violation("c16.argument-disturbed:"+bd.name, fmt.Sprintf("%s (second call): slice argument %d: %s", bd.name, i, d))
				return
			}
		}
	}
	w.Count("calls", 1)
	if len(c.S) > 0 && len(c.S[0]) >= 2 || len(c.M) >= 2 {
		w.NonTrivial(core.HashString(core.JSON(c)))
	}
	if w.WantSample() && c.B != "" && len(c.S) > 0 && len(c.S[0]) >= 3 {
		w.Sample(c)
	}
}

// exportedHelpers lists the exported top-level functions of the helper files in the repository.
func exportedHelpers() []string {
	_, self, _, _ := runtime.Caller(0)
	_ = self
	dir := os.Getenv("VERIF_REPO")
	if dir == "" {
		dir = "/repo"
	}
	var out []string
	for _, f := range []string{"slice.go", "filter.go", "map.go", "shuffle.go", "string.go", "find.go", "math.go", "range.go", "generic.go"} {
		fs := token.NewFileSet()
		af, err := parser.ParseFile(fs, filepath.Join(dir, f), nil, 0)
		if err != nil {
			continue
		}
		for _, d := range af.Decls {
			if fd, ok := d.(*ast.FuncDecl); ok && fd.Recv == nil && fd.Name.IsExported() {
				out = append(out, fd.Name.Name)
			}
		}
	}
	sort.Strings(out)
	return out
}

func TestProp(t *testing.T) {
	r := core.Start(t, "C16")
	defer r.Finish()
	r.Rule("cases = one call of an exported helper (single) or two calls sharing the first argument (pair); every slice argument lives inside a larger backing array with sentinel values before it, in its spare capacity (0, 1 or 8 slots) and behind it; after the call the whole backing array / every map entry must be unchanged (in-place helpers: only elements inside the original length of their one argument may change); the first call's result is deep-copied and must read the same after the second call (which gets different other arguments); the [][]T behind a spread variadic parameter and []map collections are tracked slot by slot (same inner slice/map in every slot, spare slots untouched); heap.Sort's returned slice must survive later in-place calls on the same argument; callbacks passed to a helper re-check the arguments from inside every invocation (not only after the call) and, in a quarter of the cases, panic at their k-th invocation, after which the recovered caller must still find its arguments unchanged; the parts of a composite result (Zip/Unzip rows, Partition halves, GroupBy groups) must not share capacity with each other or with an argument (probe: append one element to each part); the function made by Flip must not reuse its result storage from one call to the next; non-trivial = first argument has >= 2 elements; distinct by hash of the case")

	// coverage of the adapter table against the package's exported functions
	have := map[string]bool{}
	for _, a := range adapters {
		have[strings.TrimPrefix(strings.TrimSuffix(strings.TrimSuffix(strings.TrimSuffix(strings.TrimSuffix(a.name, "1"), "2"), "..."), "<"), "heap.")] = true
	}
	for _, n := range immutable {
		have[n] = true
	}
	uncovered := []string{}
	exp := exportedHelpers()
	for _, n := range exp {
		if !have[n] {
			uncovered = append(uncovered, n)
		}
	}
	r.Extra("exported_helpers_found", len(exp))
	r.Extra("adapters", len(adapters))
	r.Extra("helpers_with_only_immutable_arguments", immutable)
	r.Extra("uncovered_exported_helpers", uncovered)

	nTuples := r.Pick(200, 2000)
	gen := func(rng *core.Rand, maxLen int) []int {
		s := make([]int, rng.Intn(maxLen+1))
		for i := range s {
			s[i] = rng.Intn(5) - 1
		}
		return s
	}
	genM := func(rng *core.Rand) map[string]int {
		m := map[string]int{}
		for n := rng.Intn(5); n > 0; n-- {
			m[string(rune('a'+rng.Intn(5)))] = rng.Intn(4)
		}
		return m
	}
	core.Monitor(r, "args-single", 0, func(emit func(Case)) {
		rng := r.Rand("c16-single")
		for _, ad := range adapters {
			for i := 0; i < nTuples; i++ {
				for _, spare := range []int{0, 1, 8} {
					c := Case{A: ad.name, Spare: spare, N: rng.Intn(8), M: genM(rng)}
					for k := 0; k < ad.slices; k++ {
						c.S = append(c.S, gen(rng, 7))
					}
					if c.S == nil {
						c.S = [][]int{}
					}
					emit(c)
					if spare == 1 && i%4 == 0 { // the same arguments with a callback that panics at its k-th invocation
						c2 := c
						c2.Panic = 1 + i/4%4
						emit(c2)
					}
				}
			}
		}
	}, run)

	nPair := r.Pick(20, 200)
	core.Monitor(r, "args-pairs", 0, func(emit func(Case)) {
		rng := r.Rand("c16-pairs")
		for _, a := range adapters {
			if a.inPlace != -1 {
				continue
			}
			for _, b := range adapters {
				if b.inPlace != -1 || (a.slices == 0) != (b.slices == 0) {
					continue
				}
				for i := 0; i < nPair; i++ {
					c := Case{A: a.name, B: b.name, Spare: []int{1, 8, 3, 0}[i%4], N: rng.Intn(8), N2: rng.Intn(8), M: genM(rng), S: [][]int{}}
					for k := 0; k < a.slices; k++ {
						c.S = append(c.S, gen(rng, 6))
					}
					for k := 1; k < b.slices; k++ {
						// different values than the first call's other arguments, so that an aliased write is visible
						s := gen(rng, 6)
						for j := range s {
							s[j] += 50
						}
						c.S2 = append(c.S2, s)
					}
					emit(c)
				}
			}
		}
	}, run)

	// heap.Sort is in place on its argument AND hands back a slice: that result must survive later
	// in-place calls on the same argument (Reverse, Reject, heap.FromSlice, heap.Sort with the
	// opposite comparator), which rewrite the argument's elements.
	nIP := r.Pick(40, 400)
	core.Monitor(r, "args-inplace-pairs", 0, func(emit func(Case)) {
		rng := r.Rand("c16-inplace-pairs")
		for _, a := range adapters {
			if a.inPlace == -2 || views[a.name] || (a.inPlace == 0 && a.name != "heap.Sort") {
				continue
			}
			bs := []string{"Reverse", "Reject", "heap.FromSlice", "heap.Sort<", "heap.Sort"}
			if a.slices == 0 {
				bs = []string{"Omit", "OmitBy"}
			}
			n := nIP
			if a.name == "heap.Sort" {
				n *= 6
			}
			for _, b := range bs {
				for i := 0; i < n; i++ {
					c := Case{A: a.name, B: b, Spare: []int{0, 1, 8}[i%3], N: rng.Intn(8), N2: rng.Intn(8), M: genM(rng), S: [][]int{}}
					for k := 0; k < a.slices; k++ {
						s := gen(rng, 7)
						for j := range s { // distinct values: every rearrangement is visible
							s[j] = s[j]*10 + j
							// uniform inputs for the predicate helpers: all elements accepted (a
							// "nothing to drop, hand back the argument" shortcut) / all rejected
							switch i % 5 {
							case 3:
								s[j] *= 2
							case 4:
								s[j] = s[j]*2 + 1
							}
						}
						c.S = append(c.S, s)
					}
					emit(c)
				}
			}
		}
	}, run)
}
