// C09 — trie behaves as a string-keyed map with exact prefix queries (DESIGN §4 C09).
// Oracle: reference-model trace monitor (map + sorted key list).
package c09

import (
	"fmt"
	"sort"
	"strings"
	"testing"

	"github.com/esimov/gogu/queue"
	"github.com/esimov/gogu/trie"

	"verif/internal/core"
	"verif/internal/seq"
)

// Keys are hex-encoded in the case so that arbitrary bytes survive JSON.
type Case struct {
	Puts   []string `json:"puts_hex"`
	Probes []string `json:"probes_hex,omitempty"` // explicit probe strings; nil: all strings <= ProbeLen over Alpha
	Alpha  string   `json:"alpha,omitempty"`
	PLen   int      `json:"plen,omitempty"`
	Full   bool     `json:"full,omitempty"`
	// Undrained: before every StartsWith / Keys query another listing is requested and its
	// result queue is NOT read, as a caller that only wanted the first few keys would leave it.
	Undrained bool `json:"undrained,omitempty"`
}

func hx(s string) string { return fmt.Sprintf("%x", s) }
func unhx(h string) string {
	var b []byte
	fmt.Sscanf(h, "%x", &b)
	return string(b)
}

func allStrings(alpha string, maxLen int) []string {
	out := []string{""}
	prev := []string{""}
	for l := 1; l <= maxLen; l++ {
		var cur []string
		for _, p := range prev {
			for i := 0; i < len(alpha); i++ {
				cur = append(cur, p+alpha[i:i+1])
			}
		}
		out = append(out, cur...)
		prev = cur
	}
	return out
}

func drain(q trie.Queuer[string]) ([]string, error) {
	var out []string
	for n := q.Size(); n > 0; n-- {
		k, err := q.Dequeue()
		if err != nil {
			return out, err
		}
		out = append(out, k)
	}
	if q.Size() != 0 {
		return out, fmt.Errorf("queue not empty after draining Size() elements")
	}
	return out, nil
}

func eqs(a, b []string) bool {
	if len(a) != len(b) {
		return false
	}
	for i := range a {
		if a[i] != b[i] {
			return false
		}
	}
	return true
}

func q(ss []string) string {
	var b strings.Builder
	b.WriteString("[")
	for i, s := range ss {
		if i > 0 {
			b.WriteString(" ")
		}
		fmt.Fprintf(&b, "%q", s)
	}
	b.WriteString("]")
	return b.String()
}

func run(w *core.Worker, c Case) {
	tr := trie.New[string, int](queue.New[string]())
	model := map[string]int{}
	probes := make([]string, 0, len(c.Probes))
	if c.Probes != nil {
		for _, h := range c.Probes {
			probes = append(probes, unhx(h))
		}
	} else {
		probes = allStrings(c.Alpha, c.PLen)
	}
	nested, nonASCII := false, false

	observe := func(step int) bool {
		keys := make([]string, 0, len(model))
		for k := range model {
			keys = append(keys, k)
		}
		sort.Strings(keys) // byte-lexicographic
		if got := tr.Size(); got != len(model) {
			w.Violation("trie.size", fmt.Sprintf("after put %d: Size()=%d, distinct keys put: %d %s", step, got, len(model), q(keys)))
			return false
		}
		for _, pr := range probes {
			mv, has := model[pr]
			v, ok := tr.Get(pr)
			if ok != has || (has && v != mv) {
				sig := "trie.get"
				if !has && ok {
					sig = "trie.get-reports-absent-key"
				}
				w.Violation(sig, fmt.Sprintf("after put %d: Get(%q)=(%d,%v), model (%d,%v); keys %s", step, pr, v, ok, mv, has, q(keys)))
				return false
			}
			if got := tr.Contains(pr); got != has {
				w.Violation("trie.contains", fmt.Sprintf("after put %d: Contains(%q)=%v, model %v; keys %s", step, pr, got, has, q(keys)))
				return false
			}
			// LongestPrefix
			lp, err := tr.LongestPrefix(pr)
			if pr == "" {
				if err == nil {
					w.Violation("trie.longestprefix-empty-accepted", "LongestPrefix(\"\") returned no error")
					return false
				}
			} else {
				want := ""
				for i := len(pr); i >= 1; i-- {
					if _, ok := model[pr[:i]]; ok {
						want = pr[:i]
						break
					}
				}
				if err != nil || lp != want {
					w.Violation("trie.longestprefix", fmt.Sprintf("after put %d: LongestPrefix(%q)=(%q,%v), want %q; keys %s", step, pr, lp, err, want, q(keys)))
					return false
				}
			}
			// StartsWith
			if c.Undrained {
				if uq, uerr := tr.Keys(); uerr == nil && uq.Size() > 1 {
					uq.Dequeue() // read one key, leave the rest
				}
			}
			qq, err := tr.StartsWith(pr)
			if pr == "" {
				if err == nil {
					w.Violation("trie.startswith-empty-accepted", "StartsWith(\"\") returned no error")
					return false
				}
			} else {
				if err != nil {
					w.Violation("trie.startswith-error", fmt.Sprintf("StartsWith(%q) error %v", pr, err))
					return false
				}
				got, derr := drain(qq)
				var want []string
				for _, k := range keys {
					if strings.HasPrefix(k, pr) {
						want = append(want, k)
					}
				}
				if derr != nil || !eqs(got, want) {
					w.Violation("trie.startswith", fmt.Sprintf("after put %d: StartsWith(%q)=%s (drain err %v), want %s; keys %s", step, pr, q(got), derr, q(want), q(keys)))
					return false
				}
			}
		}
		if c.Undrained && len(keys) > 0 {
			tr.StartsWith(keys[0][:1]) // left unread
		}
		kq, err := tr.Keys()
		if err != nil {
			w.Violation("trie.keys-error", fmt.Sprintf("Keys() error %v", err))
			return false
		}
		got, derr := drain(kq)
		if derr != nil || !eqs(got, keys) {
			sig := "trie.keys"
			if len(got) == len(keys) {
				sort.Strings(got)
				if !eqs(got, keys) {
					sig = "trie.keys-altered"
				} else {
					sig = "trie.keys-order"
				}
			}
			w.Violation(sig, fmt.Sprintf("after put %d: Keys()=%s (drain err %v), want %s", step, q(got), derr, q(keys)))
			return false
		}
		// the empty-argument calls above must not have changed anything
		if got := tr.Size(); got != len(model) {
			w.Violation("trie.size-changed-by-queries", fmt.Sprintf("after the queries of put %d: Size()=%d, want %d", step, got, len(model)))
			return false
		}
		return true
	}

	if !c.Full {
		if p := core.Catch(func() { observe(-1) }); p != nil {
			w.Violation("trie.panic:observe-empty", fmt.Sprintf("queries on the empty trie panicked: %v", p))
			return
		}
	}
	for i, h := range c.Puts {
		k := unhx(h)
		if p := core.Catch(func() { tr.Put(k, i+1) }); p != nil {
			w.Violation("trie.panic:put", fmt.Sprintf("Put(%q) panicked: %v", k, p))
			return
		}
		for o := range model {
			if o != k && (strings.HasPrefix(o, k) || strings.HasPrefix(k, o)) {
				nested = true
			}
		}
		for j := 0; j < len(k); j++ {
			if k[j] >= 0x80 || k[j] == 0 {
				nonASCII = true
			}
		}
		model[k] = i + 1
		if c.Full || i == len(c.Puts)-1 {
			good := true
			if p := core.Catch(func() { good = observe(i) }); p != nil {
				w.Violation("trie.panic:observe", fmt.Sprintf("queries after put %d panicked: %v", i, p))
				return
			}
			if !good {
				return
			}
		}
	}
	if len(model) >= 2 {
		w.NonTrivial(core.HashString(core.JSON(c)))
	}
	if nested {
		w.Count("cases_with_nested_keys", 1)
	}
	if nonASCII {
		w.Count("cases_with_bytes_ge_0x80_or_nul", 1)
	}
	if w.WantSample() && nested && len(c.Puts) >= 3 {
		var ks []string
		for _, h := range c.Puts {
			ks = append(ks, unhx(h))
		}
		w.Sample(map[string]any{"puts": q(ks), "probes": len(probes)})
	}
}


// FuzzTrie (thorough tier): coverage-guided fuzzing over key sets (the input is cut into keys at
// every '|'), probed with the keys, their prefixes and one-byte extensions; same run oracle.
func FuzzTrie(f *testing.F) {
	f.Add(false, []byte("she|shells|sea|shore|she|s"))
	f.Add(true, []byte("a\x00|a|ab|\xc3\xa9|\xc3|\xff\xfe"))
	f.Fuzz(func(t *testing.T, undrained bool, data []byte) {
		if len(data) > 160 {
			data = data[:160]
		}
		c := Case{Undrained: undrained, Probes: []string{}}
		pset := map[string]bool{"": true}
		for _, k := range strings.Split(string(data), "|") {
			if k == "" {
				continue
			}
			c.Puts = append(c.Puts, hx(k))
			for j := 1; j <= len(k); j++ {
				pset[k[:j]] = true
			}
			pset[k+"a"] = true
			pset[k+"\xff"] = true
		}
		if len(c.Puts) == 0 {
			return
		}
		ps := make([]string, 0, len(pset))
		for p := range pset {
			ps = append(ps, p)
		}
		sort.Strings(ps)
		for _, p := range ps {
			c.Probes = append(c.Probes, hx(p))
		}
		w := core.Probe(func(sig, detail string) { t.Fatalf("VERIF-SIG %s\nVERIF-CASE %s\n%s", sig, core.JSON(c), detail) })
		run(w, c)
	})
}

func TestProp(t *testing.T) {
	r := core.Start(t, "C09")
	defer r.Finish()
	r.Rule("cases = sequences of Put (value = position) on trie.Trie[string,int] backed by queue.Queue, checked against a map model: Size, and for every probe string Get, Contains, LongestPrefix and the drained StartsWith queue, plus the drained Keys queue in byte order, after the last Put (sweep) or every Put (random), incl. the empty key/prefix/query and keys of 31..1025 bytes; in half of the cases every listing query is preceded by another listing whose result queue is left (partly) unread; non-trivial = at least 2 distinct keys; distinct by hash of the case")

	type cfg struct {
		alpha        string
		klen, n, pln int
	}
	var cfgs []cfg
	if r.Quick() {
		cfgs = []cfg{{"ab", 3, 5, 4}, {"abc", 2, 4, 3}}
	} else {
		cfgs = []cfg{{"ab", 3, 6, 4}, {"ab", 4, 4, 5}, {"abc", 3, 4, 4}, {"abc", 2, 5, 3}}
	}
	core.Monitor(r, "trie-sweep", 0, func(emit func(Case)) {
		for _, cf := range cfgs {
			keys := allStrings(cf.alpha, cf.klen)[1:] // non-empty keys
			hk := make([]string, len(keys))
			for i, k := range keys {
				hk[i] = hx(k)
			}
			n := seq.Enum(hk, cf.n, func(p []string) {
				emit(Case{Puts: p, Alpha: cf.alpha, PLen: cf.pln})
				if len(p) <= cf.n-1 {
					emit(Case{Puts: p, Alpha: cf.alpha, PLen: cf.pln, Undrained: true})
				}
			})
			r.Exhaustive(fmt.Sprintf("all Put sequences (with repeats, i.e. all key multisets in all insertion orders) of <=%d keys of length 1..%d over %q, probed with every string of length<=%d", cf.n, cf.klen, cf.alpha, cf.pln), n)
		}
	}, run)

	nRand := r.Pick(10000, 100000)
	core.Monitor(r, "trie-random", 0, func(emit func(Case)) {
		rng := r.Rand("c09-random")
		alphas := []string{"ab", "abc", "a\x00\xc3\xa9", "\x7f\x80\xff\x01", "xyz\xe2\x82\xac"}
		for i := 0; i < nRand; i++ {
			al := alphas[rng.Intn(len(alphas))]
			rs := func(max int) string {
				n := rng.Range(1, max)
				b := make([]byte, n)
				for j := range b {
					b[j] = al[rng.Intn(len(al))]
				}
				return string(b)
			}
			var keys []string
			nk := rng.Range(2, 12)
			bigCase := i%250 == 249 // hundreds of keys, long shared prefixes
			if bigCase {
				nk = rng.Range(150, 700)
			}
			for n := nk; n > 0; n-- {
				switch {
				case len(keys) > 0 && rng.Chance(1, 3): // extension of an existing key
					keys = append(keys, keys[rng.Intn(len(keys))]+rs(2))
				case len(keys) > 0 && rng.Chance(1, 4): // proper prefix of an existing key
					k := keys[rng.Intn(len(keys))]
					keys = append(keys, k[:rng.Range(1, len(k))])
				case len(keys) > 0 && rng.Chance(1, 6): // repeat
					keys = append(keys, keys[rng.Intn(len(keys))])
				default:
					keys = append(keys, rs(5))
				}
			}
			longCase := i%40 == 17 // long keys: lengths around the powers of two up to 1 KiB, sharing long prefixes
			if longCase {
				keys = keys[:0]
				stem := rs(1100)
				for len(stem) < 1100 {
					stem += rs(1100)
				}
				lens := []int{31, 32, 33, 63, 64, 65, 66, 100, 127, 128, 129, 255, 256, 257, 511, 512, 1023, 1024, 1025}
				for n := rng.Range(2, 8); n > 0; n-- {
					l := lens[rng.Intn(len(lens))]
					k := stem[:l]
					if rng.Bool() { // diverge from the stem somewhere
						at := rng.Intn(l)
						k = k[:at] + rs(1) + k[at+1:]
					}
					keys = append(keys, k)
				}
				keys = append(keys, rs(3))
			}
			pset := map[string]bool{"": true}
			pk := keys
			if bigCase { // probe around a sample of the keys only
				pk = nil
				for j := 0; j < 25; j++ {
					pk = append(pk, keys[rng.Intn(len(keys))])
				}
			}
			for _, k := range pk {
				for j := 1; j <= len(k); j++ {
					if longCase && j > 3 && j < len(k)-2 && j%32 > 1 && j%32 < 31 {
						continue // long keys: prefixes at both ends and around every multiple of 32
					}
					pset[k[:j]] = true
				}
				pset[k+al[rng.Intn(len(al)):][:1]] = true
				pset[k+rs(2)] = true
			}
			for j := 0; j < 6; j++ {
				pset[rs(4)] = true
			}
			c := Case{Full: !bigCase, Probes: []string{}, Undrained: i%2 == 1}
			for _, k := range keys {
				c.Puts = append(c.Puts, hx(k))
			}
			ps := make([]string, 0, len(pset))
			for p := range pset {
				ps = append(ps, p)
			}
			sort.Strings(ps)
			for _, p := range ps {
				c.Probes = append(c.Probes, hx(p))
			}
			emit(c)
		}
	}, run)
}
