// C03 — heap yields elements in comparator order and conserves them (DESIGN §4 C03).
// Oracle: reference-model trace monitor (multiset + the comparator itself).
package c03

import (
	"fmt"
	"testing"

	"github.com/esimov/gogu/heap"

	"verif/internal/core"
	"verif/internal/seq"
)

// E is the element type: comparators look at K only, so two values with the
// same K and different ID tie under the comparator without being equal.
type E struct {
	K  int `json:"k"`
	ID int `json:"id,omitempty"`
}

type Op struct {
	K    string `json:"op"`          // push pop peek clear convert delete merge meld
	V    E      `json:"v,omitempty"` // push/delete argument
	Vals []E    `json:"vals,omitempty"`
}

type Case struct {
	Max  bool `json:"max"`            // start with the max-heap comparator
	Init []E  `json:"init,omitempty"` // non-nil: build with FromSlice(Init)
	From bool `json:"from,omitempty"`
	Full bool `json:"full,omitempty"`
	Ops  []Op `json:"ops"`
}

func cmpOf(max bool) func(a, b E) bool {
	if max {
		return func(a, b E) bool { return a.K > b.K }
	}
	return func(a, b E) bool { return a.K < b.K }
}

type model struct {
	held    []E
	max     bool
	tainted bool // a successful Delete happened since the heap was last rebuilt/empty
	ref     *refHeap
	sync    bool // the implementation has returned exactly the reference's values so far
}

func (m *model) remove(v E) bool {
	for i, x := range m.held {
		if x == v {
			m.held = append(m.held[:i], m.held[i+1:]...)
			return true
		}
	}
	return false
}

func (m *model) precededBy(v E) (E, bool) {
	c := cmpOf(m.max)
	for _, x := range m.held {
		if c(x, v) {
			return x, true
		}
	}
	return E{}, false
}


// ---- reference simulation of the KNOWN defect (known_findings.json: heap.order-after-delete)
//
// refHeap mirrors the library's array algorithms including the recorded defect (Delete
// re-sifts from the root, not from the vacated slot). It is consulted ONLY to classify an
// order violation that occurs after a successful Delete: if this reference, fed the same
// operations, returns a correct (extremal) value where the implementation returned a wrong
// one - and both had returned identical values up to that point - the wrong answer is not
// the recorded defect and is reported as a violation of its own. In every other situation
// the classification is the one of the known finding. It never declares a violation by
// itself and is dropped (sync=false) at the first value on which the two differ.
type refHeap struct {
	d   []E
	max bool
}

func (r *refHeap) less(a, b E) bool { return cmpOf(r.max)(a, b) }

func (r *refHeap) up(i int) {
	for {
		p := (i - 1) / 2
		if !r.less(r.d[i], r.d[p]) {
			return
		}
		r.d[i], r.d[p] = r.d[p], r.d[i]
		i = p
	}
}

func (r *refHeap) down(n, i int) {
	for {
		l, rt, cur := 2*i+1, 2*i+2, i
		if l < n && r.less(r.d[l], r.d[cur]) {
			cur = l
		}
		if rt < n && r.less(r.d[rt], r.d[cur]) {
			cur = rt
		}
		if cur == i {
			return
		}
		r.d[i], r.d[cur] = r.d[cur], r.d[i]
		i = cur
	}
}

func (r *refHeap) push(v E) { r.d = append(r.d, v); r.up(len(r.d) - 1) }

func (r *refHeap) peek() E {
	if len(r.d) == 0 {
		return E{}
	}
	return r.d[0]
}

func (r *refHeap) pop() E {
	if len(r.d) == 0 {
		return E{}
	}
	v := r.d[0]
	r.d[0] = r.d[len(r.d)-1]
	r.d = r.d[:len(r.d)-1]
	r.down(len(r.d), 0)
	return v
}

func (r *refHeap) del(v E) bool {
	for i, x := range r.d {
		if x == v {
			n := len(r.d)
			r.d[i], r.d[n-1] = r.d[n-1], r.d[i]
			r.d = r.d[:n-1]
			r.down(n-1, 0) // the recorded defect: from the root, not from i
			return true
		}
	}
	return false
}

func (r *refHeap) convert(max bool) {
	r.max = max
	for i := (len(r.d) - 2) / 2; i >= 0; i-- {
		r.down(len(r.d), i)
	}
}

func refFromSlice(data []E, max bool) *refHeap {
	r := &refHeap{d: append([]E{}, data...), max: max}
	d := r.d
	for i := len(d)/2 - 1; i >= 0; i-- { // same loop shape as the library (i is advanced inside)
		for {
			l, rt := 2*i+1, 2*i+2
			if l >= len(d) || l < 0 {
				break
			}
			cur := l
			if rt < len(d) && r.less(d[rt], d[l]) {
				cur = rt
			}
			if !r.less(d[cur], d[i]) {
				break
			}
			d[i], d[cur] = d[cur], d[i]
			i = cur
		}
	}
	return r
}

func (r *refHeap) extremal(v E) bool {
	for _, x := range r.d {
		if r.less(x, v) {
			return false
		}
	}
	return true
}

func sameMultiset(a, b []E) bool {
	if len(a) != len(b) {
		return false
	}
	cnt := map[E]int{}
	for _, x := range a {
		cnt[x]++
	}
	for _, x := range b {
		cnt[x]--
		if cnt[x] < 0 {
			return false
		}
	}
	return true
}

// orderSig classifies an order violation; refVal is what the reference of the known defect
// returned for the same call (refOK=false: the reference is out of sync or absent).
func orderSig(m *model, what string, refVal E, refOK bool) string {
	if m.tainted {
		if refOK && m.ref.extremalWith(refVal) {
			// the recorded defect would have answered correctly here
			return "heap.order-after-delete-not-the-known-defect:" + what
		}
		return "heap.order-after-delete"
	}
	return "heap.order:" + what
}

// extremalWith: is v extremal among the reference's elements plus v itself (used after a pop,
// when v has already left the reference).
func (r *refHeap) extremalWith(v E) bool { return r.extremal(v) }

// checkTop validates a Peek/Pop result v against the model (before removal).
func checkTop(w *core.Worker, m *model, step int, what string, v E) bool {
	// feed the same call to the reference of the known defect
	var refVal E
	refOK := false
	if m.ref != nil && m.sync {
		if what == "Pop" {
			refVal = m.ref.pop()
		} else {
			refVal = m.ref.peek()
		}
		refOK = true
		if refVal != v {
			m.sync = false // from here on the reference says nothing
		}
	}
	if len(m.held) == 0 {
		if v != (E{}) {
			w.Violation("heap.nonzero-on-empty:"+what, fmt.Sprintf("step %d: %s on an empty heap returned %+v", step, what, v))
			return false
		}
		return true
	}
	found := false
	for _, x := range m.held {
		if x == v {
			found = true
		}
	}
	if !found {
		w.Violation("heap.foreign-value:"+what, fmt.Sprintf("step %d: %s returned %+v which is not held (held %v)", step, what, v, m.held))
		return false
	}
	if x, bad := m.precededBy(v); bad {
		w.Violation(orderSig(m, what, refVal, refOK), fmt.Sprintf("step %d: %s returned %+v although held %+v precedes it (max=%v, held %v; reference of the known defect returned %+v, in sync before: %v)", step, what, v, x, m.max, m.held, refVal, refOK))
		// order violations do not stop the case: conservation is still checked
	}
	return true
}

func observe(w *core.Worker, h *heap.Heap[E], m *model, step int) bool {
	if got := h.Size(); got != len(m.held) {
		w.Violation("heap.size", fmt.Sprintf("after step %d: Size()=%d, model holds %d %v", step, got, len(m.held), m.held))
		return false
	}
	if got := h.IsEmpty(); got != (len(m.held) == 0) {
		w.Violation("heap.isempty", fmt.Sprintf("after step %d: IsEmpty()=%v, model holds %d", step, got, len(m.held)))
		return false
	}
	if vals := h.GetValues(); !sameMultiset(vals, m.held) {
		w.Violation("heap.multiset", fmt.Sprintf("after step %d: GetValues()=%v, model holds %v", step, vals, m.held))
		return false
	}
	return checkTop(w, m, step, "Peek", h.Peek())
}

func run(w *core.Worker, c Case) {
	m := &model{max: c.Max}
	var h *heap.Heap[E]
	if c.From {
		data := append([]E{}, c.Init...)
		if p := core.Catch(func() { h = heap.FromSlice(data, cmpOf(c.Max)) }); p != nil {
			w.Violation("heap.panic:FromSlice", fmt.Sprintf("FromSlice(%v) panicked: %v", c.Init, p))
			return
		}
		m.held = append([]E{}, c.Init...)
		m.ref, m.sync = refFromSlice(c.Init, c.Max), true
		if !observe(w, h, m, -1) {
			return
		}
	} else {
		h = heap.NewHeap(cmpOf(c.Max))
		m.ref, m.sync = &refHeap{max: c.Max}, true
	}
	deletes, maxDepth := 0, 0

	for i, op := range c.Ops {
		var p any
		switch op.K {
		case "push":
			p = core.Catch(func() { h.Push(op.V) })
			m.held = append(m.held, op.V)
			m.ref.push(op.V)
		case "pushN":
			p = core.Catch(func() { h.Push(op.Vals...) })
			m.held = append(m.held, op.Vals...)
			for _, v := range op.Vals {
				m.ref.push(v)
			}
		case "pop":
			var v E
			p = core.Catch(func() { v = h.Pop() })
			if p == nil {
				if !checkTop(w, m, i, "Pop", v) {
					return
				}
				m.remove(v)
			}
		case "peek":
			var v E
			p = core.Catch(func() { v = h.Peek() })
			if p == nil && !checkTop(w, m, i, "Peek", v) {
				return
			}
		case "clear":
			p = core.Catch(func() { h.Clear() })
			m.held = nil
			m.ref.d = nil
		case "convert":
			m.max = !m.max
			p = core.Catch(func() { h.Convert(cmpOf(m.max)) })
			m.ref.convert(m.max)
			m.tainted = false // Convert re-heapifies the whole array
		case "delete":
			var ok bool
			p = core.Catch(func() { ok, _ = h.Delete(op.V) })
			if p == nil {
				had := false
				for _, x := range m.held {
					if x == op.V {
						had = true
					}
				}
				if ok != had {
					w.Violation("heap.delete-result", fmt.Sprintf("step %d: Delete(%+v) reported %v, model held it: %v (held %v)", i, op.V, ok, had, m.held))
					return
				}
				if m.ref.del(op.V) != had {
					m.sync = false
				}
				if had {
					m.remove(op.V)
					m.tainted = true
					deletes++
				}
			}
		case "merge", "meld":
			c2 := cmpOf(m.max)
			other := heap.NewHeap(c2)
			other.Push(op.Vals...)
			var res *heap.Heap[E]
			p = core.Catch(func() {
				if op.K == "merge" {
					res = h.Merge(other)
				} else {
					res = h.Meld(other)
				}
			})
			if p == nil {
				union := append(append([]E{}, m.held...), op.Vals...)
				if op.K == "merge" {
					if !sameMultiset(h.GetValues(), m.held) || h.Size() != len(m.held) {
						w.Violation("heap.merge-changed-receiver", fmt.Sprintf("step %d: after Merge the receiver holds %v, before %v", i, h.GetValues(), m.held))
						return
					}
					if !sameMultiset(other.GetValues(), op.Vals) || other.Size() != len(op.Vals) {
						w.Violation("heap.merge-changed-argument", fmt.Sprintf("step %d: after Merge the argument holds %v, before %v", i, other.GetValues(), op.Vals))
						return
					}
				} else {
					if h.Size() != 0 || other.Size() != 0 || !h.IsEmpty() || !other.IsEmpty() {
						w.Violation("heap.meld-inputs-not-empty", fmt.Sprintf("step %d: after Meld receiver size %d, argument size %d", i, h.Size(), other.Size()))
						return
					}
					// the emptied inputs must stay usable
					if q := core.Catch(func() {
						if v := h.Pop(); v != (E{}) {
							panic(fmt.Sprintf("Pop on melded input gave %+v", v))
						}
						other.Push(E{K: 7})
						if v := other.Pop(); v != (E{K: 7}) {
							panic(fmt.Sprintf("Push/Pop on melded input gave %+v", v))
						}
					}); q != nil {
						w.Violation("heap.meld-inputs-unusable", fmt.Sprintf("step %d: melded input misbehaves afterwards: %v", i, q))
						return
					}
				}
				// the library builds the result by pushing the receiver's array, then the argument's
				nr, or := &refHeap{max: m.max}, &refHeap{max: m.max}
				for _, v := range op.Vals {
					or.push(v)
				}
				for _, v := range m.ref.d {
					nr.push(v)
				}
				for _, v := range or.d {
					nr.push(v)
				}
				m.ref = nr
				h = res
				m.held = union
				m.tainted = false // the result is built by re-pushing every element
			}
		}
		if p != nil {
			w.Violation("heap.panic:"+op.K, fmt.Sprintf("step %d %+v panicked: %v (held before: %v)", i, op, p, m.held))
			return
		}
		if len(m.held) == 0 {
			m.tainted = false
		}
		if len(m.held) > maxDepth {
			maxDepth = len(m.held)
		}
		if c.Full || i == len(c.Ops)-1 {
			if !observe(w, h, m, i) {
				return
			}
		}
	}
	// final drain
	n := len(m.held)
	for k := 0; k <= n; k++ {
		var v E
		if p := core.Catch(func() { v = h.Pop() }); p != nil {
			w.Violation("heap.panic:drain-pop", fmt.Sprintf("drain pop %d panicked: %v", k, p))
			return
		}
		if !checkTop(w, m, len(c.Ops)+k, "Pop", v) {
			return
		}
		m.remove(v)
		if len(m.held) == 0 {
			m.tainted = false
		}
	}
	if h.Size() != 0 {
		w.Violation("heap.size", fmt.Sprintf("after the final drain Size()=%d", h.Size()))
		return
	}
	if maxDepth >= 2 {
		w.NonTrivial(core.HashString(core.JSON(c)))
	}
	if deletes > 0 {
		w.Count("cases_with_successful_delete", 1)
	}
	if maxDepth >= 7 {
		w.Count("cases_reaching_depth3", 1)
	}
	if w.WantSample() && len(c.Ops) >= 5 && deletes > 0 {
		w.Sample(c)
	}
}

// ---- Sort / FromSlice monitor

type SortCase struct {
	Max  bool `json:"max"`
	Data []E  `json:"data"`
}

func runSort(w *core.Worker, c SortCase) {
	cmp := cmpOf(c.Max)
	data := append([]E{}, c.Data...)
	var res []E
	if p := core.Catch(func() { res = heap.Sort(data, cmp) }); p != nil {
		w.Violation("heap.panic:Sort", fmt.Sprintf("Sort(%v) panicked: %v", c.Data, p))
		return
	}
	if !sameMultiset(res, c.Data) {
		w.Violation("heap.sort-not-permutation", fmt.Sprintf("Sort(%v, max=%v) = %v", c.Data, c.Max, res))
		return
	}
	for i := 0; i+1 < len(res); i++ {
		// ordered oppositely to the comparator: no element is preceded (under cmp) by its successor's... i.e. !cmp(res[i], res[i+1])
		if cmp(res[i], res[i+1]) {
			w.Violation("heap.sort-order", fmt.Sprintf("Sort(%v, max=%v) = %v: position %d precedes position %d under the comparator", c.Data, c.Max, res, i, i+1))
			return
		}
	}
	if len(c.Data) >= 3 {
		w.NonTrivial(core.HashString(core.JSON(c)))
	}
	if w.WantSample() && len(c.Data) >= 4 {
		w.Sample(map[string]any{"case": c, "sorted": res})
	}
}


// ---- bulk monitor: heaps of hundreds to thousands of elements (growth/shrink paths, depth >= 8)

type BulkCase struct {
	Max   bool   `json:"max"`
	N     int    `json:"n"`
	From  bool   `json:"from_slice,omitempty"`
	Range int    `json:"key_range"`
	Seed  uint64 `json:"seed"`
}

func runBulk(w *core.Worker, c BulkCase) {
	rng := core.NewRand(c.Seed)
	cmp := cmpOf(c.Max)
	val := func() E { return E{K: rng.Intn(c.Range), ID: rng.Intn(3)} }
	cnt := map[E]int{}
	held := 0
	var h *heap.Heap[E]
	pops := 0
	popCheck := func(what string) bool {
		v := h.Pop()
		pops++
		if held == 0 {
			if v != (E{}) {
				w.Violation("heap.nonzero-on-empty:Pop", fmt.Sprintf("bulk %s: Pop on an empty heap returned %+v", what, v))
				return false
			}
			return true
		}
		if cnt[v] == 0 {
			w.Violation("heap.foreign-value:Pop", fmt.Sprintf("bulk %s: Pop %d returned %+v which is not held (%d held)", what, pops, v, held))
			return false
		}
		for x, n := range cnt {
			if n > 0 && cmp(x, v) {
				w.Violation("heap.order:Pop", fmt.Sprintf("bulk %s: Pop %d returned %+v although held %+v precedes it (max=%v, %d held)", what, pops, v, x, c.Max, held))
				return false
			}
		}
		cnt[v]--
		held--
		if got := h.Size(); got != held {
			w.Violation("heap.size", fmt.Sprintf("bulk %s: after Pop %d Size()=%d, model holds %d", what, pops, got, held))
			return false
		}
		return true
	}
	p := core.Catch(func() {
		if c.From {
			data := make([]E, c.N)
			for i := range data {
				data[i] = val()
				cnt[data[i]]++
			}
			held = c.N
			h = heap.FromSlice(data, cmp)
		} else {
			h = heap.NewHeap(cmp)
			for i := 0; i < c.N; i++ {
				v := val()
				h.Push(v)
				cnt[v]++
				held++
			}
		}
		if h.Size() != held {
			w.Violation("heap.size", fmt.Sprintf("bulk: after loading %d elements Size()=%d", held, h.Size()))
			return
		}
		// drain to a quarter, refill to half, convert, drain completely and once more
		for held > c.N/4 {
			if !popCheck("first drain") {
				return
			}
		}
		w.Tick()
		for held < c.N/2 {
			v := val()
			h.Push(v)
			cnt[v]++
			held++
		}
		if c.Seed%2 == 0 {
			c.Max = !c.Max
			cmp = cmpOf(c.Max)
			h.Convert(cmp)
		}
		if !sameMultisetCnt(h.GetValues(), cnt, held) {
			w.Violation("heap.multiset", fmt.Sprintf("bulk: after refill/convert GetValues() is not the model's multiset (%d held)", held))
			return
		}
		for held > 0 {
			if !popCheck("final drain") {
				return
			}
		}
		w.Tick()
		popCheck("on empty")
	})
	if p != nil {
		w.Violation("heap.panic:bulk", fmt.Sprintf("bulk case panicked after %d pops: %v", pops, p))
		return
	}
	w.Count("bulk_pops", int64(pops))
	w.NonTrivial(core.HashString(core.JSON(c)))
	if w.WantSample() {
		w.Sample(c)
	}
}

func sameMultisetCnt(vals []E, cnt map[E]int, held int) bool {
	if len(vals) != held {
		return false
	}
	c2 := map[E]int{}
	for _, v := range vals {
		c2[v]++
	}
	for k, n := range cnt {
		if c2[k] != n {
			return false
		}
	}
	return true
}


// FuzzHeap (thorough tier): coverage-guided fuzzing over operation scripts (single and batched
// pushes, pop, peek, delete, convert, merge/meld with a second heap, clear), same run oracle.
func FuzzHeap(f *testing.F) {
	f.Add(true, []byte{0, 5, 0, 3, 6, 20, 1, 0, 3, 5, 4, 0, 1, 0})
	f.Add(false, []byte{6, 40, 7, 30, 1, 0, 1, 0, 2, 0})
	f.Fuzz(func(t *testing.T, max bool, data []byte) {
		if len(data) > 64 {
			data = data[:64]
		}
		c := Case{Max: max, Full: true}
		vals := func(seed, n int) []E {
			var vs []E
			for j := 0; j < n; j++ {
				vs = append(vs, E{K: (seed*7 + j*13) % 23, ID: j % 2})
			}
			return vs
		}
		for i := 0; i+1 < len(data); i += 2 {
			k := int(data[i+1])
			switch data[i] % 9 {
			case 0:
				c.Ops = append(c.Ops, Op{K: "push", V: E{K: k % 23, ID: k / 128}})
			case 1:
				c.Ops = append(c.Ops, Op{K: "pop"})
			case 2:
				c.Ops = append(c.Ops, Op{K: "peek"})
			case 3:
				c.Ops = append(c.Ops, Op{K: "delete", V: E{K: k % 23, ID: k / 128}})
			case 4:
				c.Ops = append(c.Ops, Op{K: "convert"})
			case 5:
				if k%8 == 0 {
					c.Ops = append(c.Ops, Op{K: "clear"})
				}
			case 6:
				c.Ops = append(c.Ops, Op{K: "pushN", Vals: vals(k, k%96)})
			case 7:
				c.Ops = append(c.Ops, Op{K: "merge", Vals: vals(k, k%64)})
			default:
				c.Ops = append(c.Ops, Op{K: "meld", Vals: vals(k, k%64)})
			}
		}
		if len(c.Ops) == 0 {
			return
		}
		w := core.Probe(func(sig, detail string) { t.Fatalf("VERIF-SIG %s\nVERIF-CASE %s\n%s", sig, core.JSON(c), detail) })
		run(w, c)
	})
}

func TestProp(t *testing.T) {
	r := core.Start(t, "C03")
	defer r.Finish()
	r.Rule("heap-sweep/heap-random: operation sequences on heap.Heap[struct{K,ID}] (comparators look at K only, so equal K with different ID are ties) checked against a multiset model: Pop/Peek must return a held value that no held value precedes under the current comparator, Delete result = membership, Size/IsEmpty/GetValues-as-multiset, Merge leaves inputs intact, Meld empties them, final drain; an order violation after a successful Delete carries the known-finding signature only if a reference simulation of that recorded defect does not answer correctly at that point while having agreed with the implementation so far; non-trivial = the heap held >= 2 elements at some point; heap-bulk: 255-3000 elements loaded by Push or FromSlice, drained to a quarter, refilled to half, converted, drained completely, every Pop checked for extremality and membership; heap-sort: Sort/FromSlice on slices, non-trivial = length >= 3; distinct by hash of the case")

	vals := []E{{K: 0}, {K: 1}, {K: 1, ID: 1}, {K: 2}}
	var alpha []Op
	for _, v := range vals {
		alpha = append(alpha, Op{K: "push", V: v})
	}
	alpha = append(alpha, Op{K: "pop"}, Op{K: "clear"}, Op{K: "convert"})
	for _, v := range vals[:3] {
		alpha = append(alpha, Op{K: "delete", V: v})
	}
	L := r.Pick(6, 7)
	core.Monitor(r, "heap-sweep", 0, func(emit func(Case)) {
		for _, max := range []bool{false, true} {
			n := seq.Enum(alpha, L, func(ops []Op) { emit(Case{Max: max, Ops: ops}) })
			r.Exhaustive(fmt.Sprintf("all sequences of length<=%d over {push x4 values (incl. a tie), pop, clear, convert, delete x3}, max=%v", L, max), n)
		}
	}, run)

	nRand := r.Pick(30000, 1000000)
	core.Monitor(r, "heap-random", 0, func(emit func(Case)) {
		rng := r.Rand("c03-random")
		rv := func(rangeK int) E { return E{K: rng.Intn(rangeK), ID: rng.Intn(2)} }
		for i := 0; i < nRand; i++ {
			rk := []int{3, 8, 40}[rng.Intn(3)]
			c := Case{Max: rng.Bool(), Full: true}
			if rng.Chance(1, 3) {
				c.From = true
				n := rng.Intn(16)
				c.Init = []E{}
				for j := 0; j < n; j++ {
					c.Init = append(c.Init, rv(rk))
				}
			}
			n := rng.Range(6, 45)
			fill := rng.Intn(12) // leading pushes so that depth >= 3 is common
			for j := 0; j < fill; j++ {
				c.Ops = append(c.Ops, Op{K: "push", V: rv(rk)})
			}
			for len(c.Ops) < n {
				switch x := rng.Intn(20); {
				case x < 7:
					c.Ops = append(c.Ops, Op{K: "push", V: rv(rk)})
				case x < 11:
					c.Ops = append(c.Ops, Op{K: "pop"})
				case x < 13:
					c.Ops = append(c.Ops, Op{K: "peek"})
				case x < 16:
					c.Ops = append(c.Ops, Op{K: "delete", V: rv(rk)})
				case x < 17:
					c.Ops = append(c.Ops, Op{K: "convert"})
				case x < 18:
					var vs []E
					nb := rng.Intn(6)
					if rng.Chance(1, 3) { // a second heap much longer than the first
						nb = rng.Range(12, 80)
					}
					for j := nb; j > 0; j-- {
						vs = append(vs, rv(rk))
					}
					k := "merge"
					if rng.Bool() {
						k = "meld"
					}
					c.Ops = append(c.Ops, Op{K: k, Vals: vs})
				case x < 19:
					var vs []E
					nb := rng.Intn(5)
					if rng.Chance(1, 3) { // a long batch pushed at once onto whatever is held
						nb = rng.Range(12, 80)
					}
					for j := nb; j > 0; j-- {
						vs = append(vs, rv(rk))
					}
					c.Ops = append(c.Ops, Op{K: "pushN", Vals: vs})
				default:
					if rng.Chance(1, 4) {
						c.Ops = append(c.Ops, Op{K: "clear"})
					} else {
						c.Ops = append(c.Ops, Op{K: "pop"}, Op{K: "pop"})
					}
				}
			}
			emit(c)
		}
	}, run)

	core.Monitor(r, "heap-fromslice", 0, func(emit func(Case)) {
		sv := []E{{K: 0}, {K: 1}, {K: 1, ID: 1}, {K: 2}}
		maxLen := r.Pick(6, 8)
		var total int64
		for _, max := range []bool{false, true} {
			total += seq.Enum(sv, maxLen, func(d []E) {
				emit(Case{Max: max, From: true, Init: d, Ops: []Op{{K: "push", V: E{K: 1}}, {K: "delete", V: E{K: 2}}}})
			})
		}
		r.Exhaustive(fmt.Sprintf("FromSlice on all slices of length<=%d over 4 values, then push/delete and a full drain", maxLen), total)
	}, run)

	core.Monitor(r, "heap-sort", 0, func(emit func(SortCase)) {
		sv := []E{{K: 0}, {K: 1}, {K: 1, ID: 1}, {K: 2}}
		maxLen := r.Pick(6, 8)
		var total int64
		for _, max := range []bool{false, true} {
			emit(SortCase{Max: max, Data: []E{}})
			total++
			total += seq.Enum(sv, maxLen, func(d []E) { emit(SortCase{Max: max, Data: d}) })
		}
		r.Exhaustive(fmt.Sprintf("Sort on all slices of length<=%d over 4 values (one tie), both comparators", maxLen), total)
		rng := r.Rand("c03-sort")
		for i := r.Pick(5000, 200000); i > 0; i-- {
			n := rng.Intn(65)
			d := make([]E, n)
			for j := range d {
				d[j] = E{K: rng.Intn(20), ID: rng.Intn(3)}
			}
			emit(SortCase{Max: rng.Bool(), Data: d})
		}
	}, runSort)

	nBulk := r.Pick(48, 1200)
	core.Monitor(r, "heap-bulk", 0, func(emit func(BulkCase)) {
		rng := r.Rand("c03-bulk")
		for i := 0; i < nBulk; i++ {
			emit(BulkCase{Max: i%2 == 0, From: i%3 == 0, N: []int{255, 257, 600, 1025, 3000}[rng.Intn(5)] + rng.Intn(4), Range: []int{4, 50, 100000}[rng.Intn(3)], Seed: rng.Uint64()})
		}
	}, runBulk)
}
