// C19 — linked lists behave as sequences under every edit (DESIGN §4 C19).
// Oracle: reference-model trace monitor (slice model), both list types.
package c19

import (
	"fmt"
	"testing"

	"github.com/esimov/gogu/list"

	"verif/internal/core"
	"verif/internal/seq"
)

type Op struct {
	K   string `json:"op"`            // unshift append shift pop insafter insbefore delete replace find
	Pos string `json:"pos,omitempty"` // first middle last absent
}

type Case struct {
	Double bool `json:"double"`
	Ops    []Op `json:"ops"`
}

// lst abstracts over SList and DList. Handles are obtained by find immediately before use.
type lst interface {
	unshift(int)
	append(int)
	shift()
	pop()
	insAfter(x, v int) (found bool, err error)
	insBefore(x, v int) (found bool, err error)
	del(x int) (found bool, err error)
	replace(o, n int) error
	find(x int) (val int, ok bool, nilNode bool)
	each(func(int))
	firstLast() (int, int, bool)
}

type sl struct{ l *list.SList[int] }

func (s sl) unshift(v int) { s.l.Unshift(v) }
func (s sl) append(v int)  { s.l.Append(v) }
func (s sl) shift()        { s.l.Shift() }
func (s sl) pop()          { s.l.Pop() }
func (s sl) insAfter(x, v int) (bool, error) {
	n, ok := s.l.Find(x)
	if !ok || n == nil {
		// the handle of a failed Find: must be refused with an error, without panic or effect
		return false, s.l.InsertAfter(nil, v)
	}
	return true, s.l.InsertAfter(n, v)
}
func (s sl) insBefore(x, v int) (bool, error) { return false, nil }
func (s sl) del(x int) (bool, error) {
	n, ok := s.l.Find(x)
	if !ok || n == nil {
		return false, nil
	}
	return true, s.l.Delete(n)
}
func (s sl) replace(o, n int) error { return s.l.Replace(o, n) }
func (s sl) find(x int) (int, bool, bool) {
	n, ok := s.l.Find(x)
	if n == nil {
		return 0, ok, true
	}
	return n.Value, ok, false
}
func (s sl) each(f func(int))            { s.l.Each(f) }
func (s sl) firstLast() (int, int, bool) { return 0, 0, false }

type dl struct{ l *list.DList[int] }

func (s dl) unshift(v int) { s.l.Unshift(v) }
func (s dl) append(v int)  { s.l.Append(v) }
func (s dl) shift()        { s.l.Shift() }
func (s dl) pop()          { s.l.Pop() }
func (s dl) insAfter(x, v int) (bool, error) {
	n, ok := s.l.Find(x)
	if !ok || n == nil {
		return false, s.l.InsertAfter(nil, v)
	}
	return true, s.l.InsertAfter(n, v)
}
func (s dl) insBefore(x, v int) (bool, error) {
	n, ok := s.l.Find(x)
	if !ok || n == nil {
		return false, s.l.InsertBefore(nil, v)
	}
	return true, s.l.InsertBefore(n, v)
}
func (s dl) del(x int) (bool, error) {
	n, ok := s.l.Find(x)
	if !ok || n == nil {
		return false, nil
	}
	return true, s.l.Delete(n)
}
func (s dl) replace(o, n int) error { return s.l.Replace(o, n) }
func (s dl) find(x int) (int, bool, bool) {
	n, ok := s.l.Find(x)
	if n == nil {
		return 0, ok, true
	}
	return n.Value, ok, false
}
func (s dl) each(f func(int))            { s.l.Each(f) }
func (s dl) firstLast() (int, int, bool) { return s.l.First(), s.l.Last(), true }

func idx(m []int, x int) int {
	for i, v := range m {
		if v == x {
			return i
		}
	}
	return -1
}

func insertAt(m []int, i, v int) []int {
	m = append(m, 0)
	copy(m[i+1:], m[i:])
	m[i] = v
	return m
}

func run(w *core.Worker, c Case) {
	next := 1
	fresh := func() int { next++; return next }
	var impl lst
	nm := "slist"
	if c.Double {
		impl = dl{list.InitDList(1)}
		nm = "dlist"
	} else {
		impl = sl{list.Init(1)}
	}
	model := []int{1}
	edits, headEdits := 0, 0

	collect := func() ([]int, bool) {
		var got []int
		over := false
		p := core.Catch(func() {
			impl.each(func(v int) {
				got = append(got, v)
				if len(got) > next+4 { // more elements than were ever inserted: a cycle
					over = true
					panic("verif: each overrun")
				}
			})
		})
		if p != nil && !over {
			panic(p)
		}
		return got, over
	}
	same := func(a, b []int) bool {
		if len(a) != len(b) {
			return false
		}
		for i := range a {
			if a[i] != b[i] {
				return false
			}
		}
		return true
	}
	observe := func(step int, op Op) bool {
		got, over := collect()
		if over {
			w.Violation(nm+".cycle", fmt.Sprintf("after step %d %+v: Each delivered more than %d elements although only %d values were ever inserted (cycle); model %v", step, op, next+4, next, model))
			return false
		}
		if !same(got, model) {
			w.Violation(nm+".sequence:"+op.K, fmt.Sprintf("after step %d %+v: Each gives %v, model %v", step, op, got, model))
			return false
		}
		if f, l, ok := impl.firstLast(); ok && (f != model[0] || l != model[len(model)-1]) {
			w.Violation(nm+".first-last", fmt.Sprintf("after step %d %+v: First()=%d Last()=%d, model %v", step, op, f, l, model))
			return false
		}
		for x := 0; x <= next+1; x++ {
			v, ok, nilNode := impl.find(x)
			has := idx(model, x) >= 0
			if ok != has || nilNode == has || (has && v != x) {
				w.Violation(nm+".find", fmt.Sprintf("after step %d %+v: Find(%d)=(value %d, ok %v, nil node %v), model %v", step, op, x, v, ok, nilNode, model))
				return false
			}
		}
		// observation itself must not change the sequence
		got2, over2 := collect()
		if over2 || !same(got2, model) {
			w.Violation(nm+".observers-mutate", fmt.Sprintf("after step %d: Find/First/Last/Each changed the sequence to %v, model %v", step, got2, model))
			return false
		}
		return true
	}
	target := func(pos string) (int, bool) {
		switch pos {
		case "first":
			return model[0], true
		case "last":
			return model[len(model)-1], true
		case "middle":
			if len(model) >= 3 {
				return model[len(model)/2], true
			}
			return 0, false
		}
		return 1000, true // absent
	}

	for i, op := range c.Ops {
		stop := false
		p := core.Catch(func() {
			switch op.K {
			case "unshift":
				v := fresh()
				impl.unshift(v)
				model = insertAt(model, 0, v)
				edits++
				headEdits++
			case "append":
				v := fresh()
				impl.append(v)
				model = append(model, v)
				edits++
			case "shift", "pop":
				if op.K == "shift" {
					impl.shift()
				} else {
					impl.pop()
				}
				if len(model) > 1 {
					if op.K == "shift" {
						model = model[1:]
						headEdits++
					} else {
						model = model[:len(model)-1]
					}
					edits++
				} else {
					// only one element: the statement leaves the outcome open between
					// "unchanged" and "value zeroed"; the model adopts what it sees.
					got, over := collect()
					if !over && len(got) == 1 && (got[0] == model[0] || got[0] == 0) {
						model = []int{got[0]}
					}
				}
			case "insafter", "insbefore":
				if op.K == "insbefore" && !c.Double {
					return
				}
				x, ok := target(op.Pos)
				if !ok {
					return
				}
				v := fresh()
				var found bool
				var err error
				if op.K == "insafter" {
					found, err = impl.insAfter(x, v)
				} else {
					found, err = impl.insBefore(x, v)
				}
				j := idx(model, x)
				if found != (j >= 0) {
					w.Violation(nm+".find", fmt.Sprintf("step %d %+v: Find(%d) found=%v, model %v", i, op, x, found, model))
					stop = true
					return
				}
				if j < 0 && !found && err == nil {
					w.Violation(nm+".insert-absent-accepted", fmt.Sprintf("step %d %+v: inserting next to the nil handle of a failed Find(%d) returned no error, model %v", i, op, x, model))
					stop = true
					return
				}
				if j >= 0 {
					if err != nil {
						w.Violation(nm+".insert-error", fmt.Sprintf("step %d %+v next to %d: error %v, model %v", i, op, x, err, model))
						stop = true
						return
					}
					if op.K == "insafter" {
						model = insertAt(model, j+1, v)
					} else {
						model = insertAt(model, j, v)
						if j == 0 {
							headEdits++
						}
					}
					edits++
				}
			case "delete":
				x, ok := target(op.Pos)
				if !ok {
					return
				}
				found, err := impl.del(x)
				j := idx(model, x)
				if found != (j >= 0) {
					w.Violation(nm+".find", fmt.Sprintf("step %d %+v: Find(%d) found=%v, model %v", i, op, x, found, model))
					stop = true
					return
				}
				if j >= 0 {
					if len(model) == 1 {
						if err == nil {
							w.Violation(nm+".delete-only-node-accepted", fmt.Sprintf("step %d: Delete of the only node returned no error", i))
							stop = true
						}
						return
					}
					if err != nil {
						w.Violation(nm+".delete-error", fmt.Sprintf("step %d %+v value %d: error %v, model %v", i, op, x, err, model))
						stop = true
						return
					}
					model = append(model[:j:j], model[j+1:]...)
					edits++
					if j == 0 {
						headEdits++
					}
				}
			case "replace":
				x, ok := target(op.Pos)
				if !ok {
					return
				}
				v := fresh()
				err := impl.replace(x, v)
				j := idx(model, x)
				if (err == nil) != (j >= 0) {
					w.Violation(nm+".replace-result", fmt.Sprintf("step %d: Replace(%d,%d) err=%v, model %v", i, x, v, err, model))
					stop = true
					return
				}
				if j >= 0 {
					model[j] = v
					edits++
				}
			case "find":
				// covered by observe
			}
		})
		if p != nil {
			w.Violation(nm+".panic:"+op.K, fmt.Sprintf("step %d %+v panicked: %v; model before/at the step %v", i, op, p, model))
			return
		}
		if stop {
			return
		}
		good := true
		if p := core.Catch(func() { good = observe(i, op) }); p != nil {
			w.Violation(nm+".panic:observe", fmt.Sprintf("observation after step %d %+v panicked: %v; model %v", i, op, p, model))
			return
		}
		if !good {
			return
		}
	}
	if edits >= 2 {
		w.NonTrivial(core.HashString(core.JSON(c)))
	}
	if headEdits > 0 {
		w.Count("cases_with_head_replacement", 1)
	}
	if w.WantSample() && edits >= 4 && headEdits > 0 {
		w.Sample(map[string]any{"case": c, "final": fmt.Sprint(model)})
	}
}


// ---- lists holding DUPLICATE values: only the operations whose meaning the property fixes in
// that situation are used - Unshift/Append/Shift/Pop, Replace ("changes the first occurrence
// or reports absence") and Find (a node holding the value iff it occurs) - checked by Each.

type DupOp struct {
	K string `json:"op"` // unshift append shift pop replace find
	A int    `json:"a,omitempty"`
	B int    `json:"b,omitempty"`
}

type DupCase struct {
	Double bool    `json:"double"`
	Ops    []DupOp `json:"ops"`
}

func runDup(w *core.Worker, c DupCase) {
	var impl lst
	nm := "slist"
	if c.Double {
		nm = "dlist"
		impl = dl{list.InitDList(1)}
	} else {
		impl = sl{list.Init(1)}
	}
	model := []int{1}
	dupSeen := false
	for i, op := range c.Ops {
		stop := false
		p := core.Catch(func() {
			switch op.K {
			case "unshift":
				impl.unshift(op.A)
				model = insertAt(model, 0, op.A)
			case "append":
				impl.append(op.A)
				model = append(model, op.A)
			case "shift":
				if len(model) > 1 {
					impl.shift()
					model = model[1:]
				}
			case "pop":
				if len(model) > 1 {
					impl.pop()
					model = model[:len(model)-1]
				}
			case "replace":
				err := impl.replace(op.A, op.B)
				j := idx(model, op.A)
				if (err == nil) != (j >= 0) {
					w.Violation(nm+".replace-result", fmt.Sprintf("step %d: Replace(%d,%d) err=%v, model %v", i, op.A, op.B, err, model))
					stop = true
					return
				}
				if j >= 0 {
					model[j] = op.B
				}
			case "find":
				v, ok, nilNode := impl.find(op.A)
				if ok != (idx(model, op.A) >= 0) || (ok && (nilNode || v != op.A)) {
					w.Violation(nm+".find", fmt.Sprintf("step %d: Find(%d)=(%d,%v,nil node %v), model %v", i, op.A, v, ok, nilNode, model))
					stop = true
				}
			}
		})
		if p != nil {
			w.Violation(nm+".panic:"+op.K, fmt.Sprintf("duplicates: step %d %+v panicked: %v; model %v", i, op, p, model))
			return
		}
		if stop {
			return
		}
		var seen []int
		over := false
		if p := core.Catch(func() {
			impl.each(func(v int) {
				seen = append(seen, v)
				if len(seen) > len(model)+4 {
					over = true
					panic("verif: each overrun")
				}
			})
		}); p != nil && !over {
			w.Violation(nm+".panic:each", fmt.Sprintf("duplicates: Each after step %d panicked: %v", i, p))
			return
		}
		if over || !eqInts(seen, model) {
			w.Violation(nm+".sequence", fmt.Sprintf("duplicates: after step %d %+v the list reads %v, model %v", i, op, seen, model))
			return
		}
		cnt := map[int]int{}
		for _, v := range model {
			cnt[v]++
			if cnt[v] > 1 {
				dupSeen = true
			}
		}
	}
	if dupSeen {
		w.NonTrivial(core.HashString(core.JSON(c)))
	}
}

func eqInts(a, b []int) bool {
	if len(a) != len(b) {
		return false
	}
	for i := range a {
		if a[i] != b[i] {
			return false
		}
	}
	return true
}

// ---- very long lists (tens of thousands of nodes): walks must reach the real end

type LongCase struct {
	Double bool `json:"double"`
	N      int  `json:"n"`
}

func runLong(w *core.Worker, c LongCase) {
	var impl lst
	nm := "slist"
	if c.Double {
		nm = "dlist"
		impl = dl{list.InitDList(0)}
	} else {
		impl = sl{list.Init(0)}
	}
	p := core.Catch(func() {
		for i := 1; i < c.N; i++ {
			impl.unshift(i) // list reads N-1, ..., 1, 0
		}
		w.Tick()
		count := func() (n, first, last int) {
			impl.each(func(v int) {
				if n == 0 {
					first = v
				}
				last = v
				n++
			})
			return
		}
		impl.append(-5)
		n, first, last := count()
		if n != c.N+1 || first != c.N-1 || last != -5 {
			w.Violation(nm+".sequence", fmt.Sprintf("long list: after %d Unshift and one Append the list has %d elements, first %d, last %d (want %d, %d, -5)", c.N-1, n, first, last, c.N+1, c.N-1))
			return
		}
		w.Tick()
		impl.pop()
		impl.pop()
		n, first, last = count()
		if n != c.N-1 || last != 1 {
			w.Violation(nm+".sequence", fmt.Sprintf("long list: after two Pop the list has %d elements, last %d (want %d, 1)", n, last, c.N-1))
			return
		}
		if v, ok, nilNode := impl.find(1); !ok || nilNode || v != 1 {
			w.Violation(nm+".find", fmt.Sprintf("long list: Find(1) (the last element) = (%d,%v)", v, ok))
		}
	})
	if p != nil {
		w.Violation(nm+".panic:long", fmt.Sprintf("long list (%d nodes) panicked: %v", c.N, p))
		return
	}
	w.NonTrivial(core.HashString(core.JSON(c)))
}

// alphabetX additionally inserts next to the nil handle of a failed Find (random and fuzzed scripts only,
// to keep the exhaustive sweep at its size).
func alphabetX(double bool) []Op {
	a := append(alphabet(double), Op{"insafter", "absent"})
	if double {
		a = append(a, Op{"insbefore", "absent"})
	}
	return a
}

func alphabet(double bool) []Op {
	a := []Op{{K: "unshift"}, {K: "append"}, {K: "shift"}, {K: "pop"}}
	for _, p := range []string{"first", "middle", "last"} {
		a = append(a, Op{"insafter", p}, Op{"delete", p}, Op{"replace", p})
		if double {
			a = append(a, Op{"insbefore", p})
		}
	}
	return append(a, Op{"replace", "absent"}, Op{"delete", "absent"})
}


// FuzzList (thorough tier): coverage-guided fuzzing over edit scripts drawn from the same
// operation alphabet as the sweep (positions first/middle/last/absent), same run oracle.
func FuzzList(f *testing.F) {
	f.Add(true, []byte{0, 1, 1, 4, 7, 2, 3, 9, 12, 5})
	f.Add(false, []byte{1, 1, 1, 6, 2, 3, 8, 0, 11})
	f.Fuzz(func(t *testing.T, double bool, data []byte) {
		if len(data) > 120 {
			data = data[:120]
		}
		a := alphabetX(double)
		c := Case{Double: double}
		for _, b := range data {
			c.Ops = append(c.Ops, a[int(b)%len(a)])
		}
		if len(c.Ops) == 0 {
			return
		}
		w := core.Probe(func(sig, detail string) { t.Fatalf("VERIF-SIG %s\nVERIF-CASE %s\n%s", sig, core.JSON(c), detail) })
		run(w, c)
	})
}

func TestProp(t *testing.T) {
	r := core.Start(t, "C19")
	defer r.Finish()
	r.Rule("cases = edit sequences on list.SList[int]/list.DList[int] with fresh distinct values and node handles taken from Find immediately before use (positions first/middle/last/absent), checked against a slice model after EVERY step: the Each sequence, First/Last, Find of every value ever used, returned errors, no panic, no cycle (Each bounded by the number of values ever inserted), observers do not mutate; list-duplicates: lists holding duplicate values under Unshift/Append/Shift/Pop/Replace (first occurrence)/Find, Each after every step; list-long: 70 001 and 140 000 nodes, then Append/Pop/Find at the far end; non-trivial = at least 2 effective edits; distinct by hash of (list type, ops)")

	L := r.Pick(5, 6)
	core.Monitor(r, "list-sweep", 0, func(emit func(Case)) {
		for _, d := range []bool{false, true} {
			a := alphabet(d)
			n := seq.Enum(a, L, func(ops []Op) { emit(Case{Double: d, Ops: ops}) })
			r.Exhaustive(fmt.Sprintf("all edit sequences of length<=%d over %d operations (positions first/middle/last/absent), double=%v", L, len(a), d), n)
		}
	}, run)

	nRand := r.Pick(30000, 1000000)
	core.Monitor(r, "list-random", 0, func(emit func(Case)) {
		rng := r.Rand("c19-random")
		for i := 0; i < nRand; i++ {
			d := rng.Bool()
			a := alphabetX(d)
			c := Case{Double: d}
			nops := rng.Range(6, 30)
			long := i%500 == 499 // long lists: growth-biased, 120-300 edits
			if long {
				nops = rng.Range(120, 300)
			}
			for n := nops; n > 0; n-- {
				if long && rng.Chance(2, 5) {
					c.Ops = append(c.Ops, []Op{{K: "append"}, {K: "unshift"}, {"insafter", "middle"}, {"insafter", "last"}}[rng.Intn(4)])
					continue
				}
				c.Ops = append(c.Ops, a[rng.Intn(len(a))])
			}
			emit(c)
		}
	}, run)

	core.Monitor(r, "list-duplicates", 0, func(emit func(DupCase)) {
		var alpha []DupOp
		for _, v := range []int{1, 2} {
			alpha = append(alpha, DupOp{K: "unshift", A: v}, DupOp{K: "append", A: v}, DupOp{K: "find", A: v})
		}
		alpha = append(alpha, DupOp{K: "shift"}, DupOp{K: "pop"}, DupOp{K: "replace", A: 1, B: 2}, DupOp{K: "replace", A: 2, B: 1}, DupOp{K: "replace", A: 1, B: 3}, DupOp{K: "replace", A: 3, B: 1}, DupOp{K: "find", A: 3})
		L := r.Pick(5, 6)
		for _, d := range []bool{false, true} {
			n := seq.Enum(alpha, L, func(ops []DupOp) { emit(DupCase{Double: d, Ops: ops}) })
			r.Exhaustive(fmt.Sprintf("lists with duplicate values: all sequences of length<=%d over %d operations (values 1..3), double=%v", L, len(alpha), d), n)
		}
	}, runDup)

	core.Monitor(r, "list-long", 2, func(emit func(LongCase)) {
		for _, d := range []bool{false, true} {
			for _, n := range []int{70001, 140000} {
				emit(LongCase{Double: d, N: n})
			}
		}
	}, runLong)
}
