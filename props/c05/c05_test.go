// C05 — queues deliver elements first-in first-out without loss (DESIGN §4 C05).
// Oracle: reference-model trace monitor (slice model), both implementations.
package c05

import (
	"fmt"
	"testing"

	"github.com/esimov/gogu/queue"

	"verif/internal/core"
	"verif/internal/seq"
)

type Op struct {
	K string `json:"op"` // enq deq peek search size clear
	V int    `json:"v,omitempty"`
}

type Case struct {
	Linked bool `json:"linked"`
	Init   int  `json:"init,omitempty"` // mandatory first element of the linked queue
	Full   bool `json:"full,omitempty"`
	Probe  int  `json:"probe"` // Search probes 0..Probe
	Ops    []Op `json:"ops"`
}

// q abstracts over the two implementations; deq reports (value, emptiness reported).
type q interface {
	enq(int)
	deq() (int, bool)
	peek() int
	search(int) bool
	size() int
	clear()
}

type sq struct{ q *queue.Queue[int] }

func (s sq) enq(v int) { s.q.Enqueue(v) }
func (s sq) deq() (int, bool) {
	v, err := s.q.Dequeue()
	return v, err != nil
}
func (s sq) peek() int         { return s.q.Peek() }
func (s sq) search(v int) bool { return s.q.Search(v) }
func (s sq) size() int         { return s.q.Size() }
func (s sq) clear()            { s.q.Clear() }

type lq struct{ q *queue.LQueue[int] }

func (s lq) enq(v int)         { s.q.Enqueue(v) }
func (s lq) deq() (int, bool)  { v := s.q.Dequeue(); return v, v == 0 }
func (s lq) peek() int         { return s.q.Peek() }
func (s lq) search(v int) bool { return s.q.Search(v) }
func (s lq) size() int         { return s.q.Size() }
func (s lq) clear()            { s.q.Clear() }

func name(c Case) string {
	if c.Linked {
		return "lqueue"
	}
	return "queue"
}

func run(w *core.Worker, c Case) {
	var impl q
	var model []int
	if c.Linked {
		impl = lq{queue.NewLinked(c.Init)}
		model = []int{c.Init}
	} else {
		impl = sq{queue.New[int]()}
	}
	nm := name(c)
	emptied, refilled := false, false

	observe := func(step int) bool {
		var p any
		ok := true
		p = core.Catch(func() {
			if got := impl.size(); got != len(model) {
				sig := nm + ".size"
				if got < 0 {
					sig = nm + ".size-negative"
				}
				w.Violation(sig, fmt.Sprintf("after step %d: Size()=%d, model holds %v", step, got, model))
				ok = false
				return
			}
			want := 0
			if len(model) > 0 {
				want = model[0]
			}
			if got := impl.peek(); got != want {
				w.Violation(nm+".peek", fmt.Sprintf("after step %d: Peek()=%d, model front %d (model %v)", step, got, want, model))
				ok = false
				return
			}
			for v := 0; v <= c.Probe; v++ {
				has := false
				for _, x := range model {
					if x == v {
						has = true
					}
				}
				if got := impl.search(v); got != has {
					w.Violation(nm+".search", fmt.Sprintf("after step %d: Search(%d)=%v, model %v", step, v, got, model))
					ok = false
					return
				}
			}
		})
		if p != nil {
			w.Violation(nm+".panic:observe", fmt.Sprintf("after step %d: observation panicked: %v (model %v)", step, p, model))
			return false
		}
		return ok
	}

	deq := func(step int) bool {
		var v int
		var emptyReported bool
		if p := core.Catch(func() { v, emptyReported = impl.deq() }); p != nil {
			w.Violation(nm+".panic:deq", fmt.Sprintf("step %d: Dequeue panicked: %v (model %v)", step, p, model))
			return false
		}
		if len(model) == 0 {
			if !emptyReported || v != 0 {
				w.Violation(nm+".deq-on-empty", fmt.Sprintf("step %d: Dequeue on an empty queue returned %d, emptiness reported=%v", step, v, emptyReported))
				return false
			}
			return true
		}
		if v != model[0] || (!c.Linked && emptyReported) {
			w.Violation(nm+".deq-order", fmt.Sprintf("step %d: Dequeue returned %d (empty reported=%v), model front %d (model %v)", step, v, emptyReported, model[0], model))
			return false
		}
		model = model[1:]
		if len(model) == 0 {
			emptied = true
		}
		return true
	}

	for i, op := range c.Ops {
		var p any
		switch op.K {
		case "enq":
			p = core.Catch(func() { impl.enq(op.V) })
			if emptied {
				refilled = true
			}
			model = append(model, op.V)
		case "deq":
			if !deq(i) {
				return
			}
		case "clear":
			p = core.Catch(func() { impl.clear() })
			model = nil
			emptied = true
		case "peek", "search", "size":
			// covered by observe; as explicit steps they check that reads do not disturb the state
			if !observe(i) {
				return
			}
		}
		if p != nil {
			w.Violation(nm+".panic:"+op.K, fmt.Sprintf("step %d %+v panicked: %v", i, op, p))
			return
		}
		if c.Full || i == len(c.Ops)-1 {
			if !observe(i) {
				return
			}
		}
	}
	for k, n := 0, len(model); k <= n; k++ { // drain, then one Dequeue on empty
		if !deq(len(c.Ops) + k) {
			return
		}
		if !observe(len(c.Ops) + k) {
			return
		}
	}
	if emptied && refilled {
		w.Count("cases_emptied_and_refilled", 1)
	}
	if len(c.Ops) >= 2 {
		w.NonTrivial(core.HashString(core.JSON(c)))
	}
	if w.WantSample() && emptied && refilled && len(c.Ops) >= 5 {
		w.Sample(c)
	}
}


// ---- bulk monitor: deep queues (growth and shrink paths of the backing storage)

// BulkCase is a sequence of phases on one queue: k > 0 enqueues k fresh values
// (1, 2, 3, ... so every value is unique), k < 0 dequeues |k| times, 0 clears.
type BulkCase struct {
	Linked bool  `json:"linked"`
	Phases []int `json:"phases"`
}

func runBulk(w *core.Worker, c BulkCase) {
	var impl q
	var model []int
	next := 1
	nm := "queue"
	if c.Linked {
		nm = "lqueue"
		impl = lq{queue.NewLinked(next)}
		model = []int{next}
		next++
	} else {
		impl = sq{queue.New[int]()}
	}
	lastRemoved, maxHeld, steps := 0, 0, 0
	// cheap observation after every single operation: Size and Peek
	quick := func(what string) bool {
		if got := impl.size(); got != len(model) {
			w.Violation(nm+".size", fmt.Sprintf("bulk: after %s (operation %d) Size()=%d, model holds %d elements", what, steps, got, len(model)))
			return false
		}
		want := 0
		if len(model) > 0 {
			want = model[0]
		}
		if got := impl.peek(); got != want {
			w.Violation(nm+".peek", fmt.Sprintf("bulk: after %s (operation %d) Peek()=%d, model front %d (%d held)", what, steps, got, want, len(model)))
			return false
		}
		return true
	}
	// membership probes after every phase: front, back, middle, the value removed last, a value never enqueued
	probes := func(phase int) bool {
		cand := map[int]bool{next + 7: false}
		if lastRemoved != 0 {
			cand[lastRemoved] = false
		}
		if n := len(model); n > 0 {
			cand[model[0]], cand[model[n-1]], cand[model[n/2]] = true, true, true
		}
		for v, has := range cand {
			if got := impl.search(v); got != has {
				w.Violation(nm+".search", fmt.Sprintf("bulk: after phase %d Search(%d)=%v, model says %v (%d held, values %d..%d)", phase, v, got, has, len(model), first(model), last(model)))
				return false
			}
		}
		return true
	}
	p := core.Catch(func() {
		for pi, k := range c.Phases {
			switch {
			case k > 0:
				for ; k > 0; k-- {
					impl.enq(next)
					model = append(model, next)
					next++
					steps++
					if !quick("Enqueue") {
						return
					}
				}
			case k < 0:
				for ; k < 0; k++ {
					v, emptyReported := impl.deq()
					steps++
					if len(model) == 0 {
						if v != 0 || !emptyReported {
							w.Violation(nm+".deq-on-empty", fmt.Sprintf("bulk: operation %d: Dequeue on an empty queue returned %d, emptiness reported=%v", steps, v, emptyReported))
							return
						}
					} else {
						if v != model[0] {
							w.Violation(nm+".deq-order", fmt.Sprintf("bulk: operation %d: Dequeue returned %d, model front %d (%d held)", steps, v, model[0], len(model)))
							return
						}
						lastRemoved = v
						model = model[1:]
					}
					if !quick("Dequeue") {
						return
					}
				}
			default:
				impl.clear()
				steps++
				if len(model) > 0 {
					lastRemoved = model[len(model)-1]
				}
				model = nil
				if !quick("Clear") {
					return
				}
			}
			if len(model) > maxHeld {
				maxHeld = len(model)
			}
			w.Tick()
			if !probes(pi) {
				return
			}
		}
	})
	if p != nil {
		w.Violation(nm+".panic:bulk", fmt.Sprintf("bulk: operation %d panicked: %v (%d held)", steps, p, len(model)))
		return
	}
	w.Count("bulk_operations", int64(steps))
	if maxHeld >= 300 {
		w.NonTrivial(core.HashString(core.JSON(c)))
	}
	if w.WantSample() {
		w.Sample(map[string]any{"case": c, "max_held": maxHeld, "operations": steps})
	}
}

func first(m []int) int {
	if len(m) == 0 {
		return 0
	}
	return m[0]
}

func last(m []int) int {
	if len(m) == 0 {
		return 0
	}
	return m[len(m)-1]
}


// ---- element types with identity: pointers. Two elements are the same only if == says so.

type PtrCase struct {
	Linked bool `json:"linked"`
	N      int  `json:"n"`
	Deqs   int  `json:"deqs"`
}

func runPtr(w *core.Worker, c PtrCase) {
	nm := "queue"
	if c.Linked {
		nm = "lqueue"
	}
	mkv := func(i int) *int { v := i % 2; return &v }
	held := []*int{}
	never := mkv(0)
	p := core.Catch(func() {
		var enq func(*int)
		var deq func() *int
		var search func(*int) bool
		var size func() int
		if c.Linked {
			first := mkv(0)
			q := queue.NewLinked(first)
			held = append(held, first)
			enq, deq, search, size = q.Enqueue, q.Dequeue, q.Search, q.Size
		} else {
			q := queue.New[*int]()
			enq, search, size = q.Enqueue, q.Search, q.Size
			deq = func() *int { v, _ := q.Dequeue(); return v }
		}
		for i := 0; i < c.N; i++ {
			v := mkv(i)
			enq(v)
			held = append(held, v)
		}
		var gone []*int
		for k := 0; k < c.Deqs && len(held) > 0; k++ {
			if got := deq(); got != held[0] {
				w.Violation(nm+".deq-order", fmt.Sprintf("pointer elements: Dequeue returned %p, the front was %p", got, held[0]))
				return
			}
			gone = append(gone, held[0])
			held = held[1:]
		}
		if size() != len(held) {
			w.Violation(nm+".size", fmt.Sprintf("pointer elements: Size()=%d, %d held", size(), len(held)))
			return
		}
		for _, h := range held {
			if !search(h) {
				w.Violation(nm+".search", fmt.Sprintf("pointer elements: Search(%p) is false for a held element", h))
				return
			}
		}
		for _, g := range append(gone, never) {
			if search(g) {
				w.Violation(nm+".search", fmt.Sprintf("pointer elements: Search(%p -> %d) is true although that pointer is not held (%d held elements with equal pointees exist)", g, *g, len(held)))
				return
			}
		}
	})
	if p != nil {
		w.Violation(nm+".panic:pointer-elements", fmt.Sprintf("pointer elements panicked: %v", p))
		return
	}
	w.NonTrivial(core.HashString(core.JSON(c)))
}


// FuzzQueue (thorough tier): coverage-guided fuzzing over phase scripts of the bulk monitor. The
// input bytes are (op, arg) pairs: small and LARGE enqueue / dequeue phases and Clear, so that the
// engine's coverage feedback can walk into size-dependent branches of an implementation.
func FuzzQueue(f *testing.F) {
	f.Add(false, []byte{1, 60, 3, 50, 0, 3, 2, 9})
	f.Add(true, []byte{0, 2, 2, 1, 1, 10, 3, 11, 15, 0, 0, 1})
	f.Fuzz(func(t *testing.T, linked bool, data []byte) {
		if len(data) > 48 {
			data = data[:48]
		}
		c := BulkCase{Linked: linked}
		total := 0
		for i := 0; i+1 < len(data); i += 2 {
			k := int(data[i+1])
			big := k*6 + 1
			if linked {
				big = k%40*6 + 1 // the linked queue appends in linear time
			}
			switch {
			case data[i]%16 == 15:
				c.Phases = append(c.Phases, 0)
			case data[i]%4 == 0:
				c.Phases = append(c.Phases, k%8+1)
				total += k%8 + 1
			case data[i]%4 == 1:
				c.Phases = append(c.Phases, big)
				total += big
			case data[i]%4 == 2:
				c.Phases = append(c.Phases, -(k%8 + 1))
			default:
				c.Phases = append(c.Phases, -big)
			}
			if total > 6000 {
				break
			}
		}
		w := core.Probe(func(sig, detail string) { t.Fatalf("VERIF-SIG %s\nVERIF-CASE %s\n%s", sig, core.JSON(c), detail) })
		runBulk(w, c)
	})
}

func TestProp(t *testing.T) {
	r := core.Start(t, "C05")
	defer r.Finish()
	r.Rule("cases = operation sequences on queue.Queue[int] and queue.LQueue[int] (the linked one starting from its mandatory element) checked against a slice model: every Dequeue value and emptiness report, and Size/Peek/Search of every probe value after the last step (sweep) or every step (random), then a full drain plus one Dequeue on the empty queue; non-trivial = at least 2 operations; queue-bulk: phases of hundreds to thousands of enqueues of unique values and dequeues (to empty, beyond, almost, partly; occasional Clear) with Size/Peek after every operation, every Dequeue value, membership probes after every phase; non-trivial = at least 300 elements were held at once; pointer-elements: the same containers over *int (all pointers distinct, pointees equal) and structs with a pointer field: identity of what is returned, Search true exactly for the held pointers; distinct by hash of the case")

	alpha := []Op{{"enq", 1}, {"enq", 2}, {"enq", 3}, {K: "deq"}, {K: "clear"}, {K: "peek"}}
	L := r.Pick(7, 9)
	core.Monitor(r, "queue-sweep", 0, func(emit func(Case)) {
		for _, linked := range []bool{false, true} {
			n := seq.Enum(alpha, L, func(ops []Op) { emit(Case{Linked: linked, Init: 3, Probe: 3, Ops: ops}) })
			r.Exhaustive(fmt.Sprintf("all sequences of length<=%d over {enq 1..3, deq, clear, read-only observation}, linked=%v", L, linked), n)
		}
	}, run)

	nRand := r.Pick(20000, 1000000)
	core.Monitor(r, "queue-random", 0, func(emit func(Case)) {
		rng := r.Rand("c05-random")
		for i := 0; i < nRand; i++ {
			c := Case{Linked: rng.Bool(), Init: rng.Intn(6), Probe: 6, Full: true}
			n := rng.Range(5, 60)
			for len(c.Ops) < n {
				switch ph := rng.Intn(5); ph {
				case 0: // fill
					for k := rng.Intn(6); k >= 0; k-- {
						c.Ops = append(c.Ops, Op{"enq", rng.Intn(6)})
					}
				case 1: // drain to empty and beyond
					for k := rng.Intn(8); k >= 0; k-- {
						c.Ops = append(c.Ops, Op{K: "deq"})
					}
				case 2:
					if rng.Chance(1, 3) {
						c.Ops = append(c.Ops, Op{K: "clear"})
					}
				default: // churn
					for k := rng.Intn(5); k >= 0; k-- {
						if rng.Bool() {
							c.Ops = append(c.Ops, Op{"enq", rng.Intn(6)})
						} else {
							c.Ops = append(c.Ops, Op{K: "deq"})
						}
					}
				}
			}
			emit(c)
		}
	}, run)

	// deep queues: fill to hundreds/thousands of elements, drain (completely, almost, partly), refill
	nBulk := r.Pick(48, 1500)
	core.Monitor(r, "queue-bulk", 0, func(emit func(BulkCase)) {
		rng := r.Rand("c05-bulk")
		for i := 0; i < nBulk; i++ {
			c := BulkCase{Linked: i%2 == 1}
			top := []int{300, 700, 1500, 3000}[rng.Intn(4)]
			if c.Linked && top > 1500 {
				top = 1500 // the linked queue appends in linear time
			}
			held := 0
			for ph := rng.Range(3, 8); ph > 0; ph-- {
				up := rng.Range(top/2, top)
				c.Phases = append(c.Phases, up)
				held += up
				var down int
				switch rng.Intn(4) {
				case 0:
					down = held // exactly to empty
				case 1:
					down = held + rng.Intn(3) // and beyond
				case 2:
					down = held - rng.Range(1, 40) // almost
				default:
					down = rng.Range(held/4, held)
				}
				c.Phases = append(c.Phases, -down)
				held -= down
				if held < 0 {
					held = 0
				}
				if rng.Chance(1, 8) {
					c.Phases = append(c.Phases, 0)
					held = 0
				}
			}
			emit(c)
		}
	}, runBulk)

	core.Monitor(r, "queue-pointer-elements", 0, func(emit func(PtrCase)) {
		for _, l := range []bool{false, true} {
			for n := 0; n <= 9; n++ {
				for d := 0; d <= n+1; d++ {
					emit(PtrCase{Linked: l, N: n, Deqs: d})
				}
			}
		}
	}, runPtr)
}
