// C06 — stacks deliver elements last-in first-out without loss (DESIGN §4 C06).
// Oracle: reference-model trace monitor (slice model), both implementations.
package c06

import (
	"fmt"
	"testing"

	"github.com/esimov/gogu/stack"

	"verif/internal/core"
	"verif/internal/seq"
)

type Op struct {
	K string `json:"op"` // push pop peek
	V int    `json:"v,omitempty"`
}

type Case struct {
	Linked bool `json:"linked"`
	Init   int  `json:"init,omitempty"`
	Full   bool `json:"full,omitempty"`
	Probe  int  `json:"probe"`
	Ops    []Op `json:"ops"`
}

type st interface {
	Push(int)
	Pop() int
	Peek() int
	Search(int) bool
	Size() int
}

func name(c Case) string {
	if c.Linked {
		return "lstack"
	}
	return "stack"
}

func run(w *core.Worker, c Case) {
	var impl st
	var model []int
	if c.Linked {
		impl = stack.NewLinked(c.Init)
		model = []int{c.Init}
	} else {
		impl = stack.New[int]()
	}
	nm := name(c)
	emptied, refilled := false, false

	observe := func(step int) bool {
		ok := true
		p := core.Catch(func() {
			if got := impl.Size(); got != len(model) {
				w.Violation(nm+".size", fmt.Sprintf("after step %d: Size()=%d, model holds %v", step, got, model))
				ok = false
				return
			}
			want := 0
			if len(model) > 0 {
				want = model[len(model)-1]
			}
			if got := impl.Peek(); got != want {
				w.Violation(nm+".peek", fmt.Sprintf("after step %d: Peek()=%d, model top %d (model %v)", step, got, want, model))
				ok = false
				return
			}
			for v := 0; v <= c.Probe; v++ {
				has := false
				for _, x := range model {
					if x == v {
						has = true
					}
				}
				if got := impl.Search(v); got != has {
					w.Violation(nm+".search", fmt.Sprintf("after step %d: Search(%d)=%v, model %v", step, v, got, model))
					ok = false
					return
				}
			}
		})
		if p != nil {
			w.Violation(nm+".panic:observe", fmt.Sprintf("after step %d: observation panicked: %v (model %v)", step, p, model))
			return false
		}
		return ok
	}

	pop := func(step int) bool {
		var v int
		if p := core.Catch(func() { v = impl.Pop() }); p != nil {
			w.Violation(nm+".panic:pop", fmt.Sprintf("step %d: Pop panicked: %v (model %v)", step, p, model))
			return false
		}
		if len(model) == 0 {
			if v != 0 {
				w.Violation(nm+".pop-on-empty", fmt.Sprintf("step %d: Pop on an empty stack returned %d", step, v))
				return false
			}
			return true
		}
		top := model[len(model)-1]
		if v != top {
			below := 0
			if len(model) >= 2 {
				below = model[len(model)-2]
			}
			if c.Linked && v == below {
				// The linked stack's Pop hands back the element under the removed top (the zero value
				// when one element was held): pinned by stack.Example_linkedList (known finding). What
				// Pop *removed* is still checked by the Size/Peek/Search observation that follows.
				w.Violation("lstack.pop-returns-element-below-top", fmt.Sprintf("step %d: Pop returned %d, the top was %d (model %v)", step, v, top, model))
			} else {
				w.Violation(nm+".pop-value", fmt.Sprintf("step %d: Pop returned %d, model top %d (model %v)", step, v, top, model))
				return false
			}
		}
		model = model[:len(model)-1]
		if len(model) == 0 {
			emptied = true
		}
		return true
	}

	for i, op := range c.Ops {
		switch op.K {
		case "push":
			if p := core.Catch(func() { impl.Push(op.V) }); p != nil {
				w.Violation(nm+".panic:push", fmt.Sprintf("step %d %+v panicked: %v", i, op, p))
				return
			}
			if emptied {
				refilled = true
			}
			model = append(model, op.V)
		case "pop":
			if !pop(i) {
				return
			}
			// what was removed is decided by observation, always (not only in Full mode)
			if !observe(i) {
				return
			}
		case "peek":
			if !observe(i) {
				return
			}
		}
		if c.Full || i == len(c.Ops)-1 {
			if !observe(i) {
				return
			}
		}
	}
	for k, n := 0, len(model); k <= n; k++ { // drain (Peek before each Pop via observe), then Pop on empty
		if !observe(len(c.Ops) + k) {
			return
		}
		if !pop(len(c.Ops) + k) {
			return
		}
	}
	if !observe(len(c.Ops) + len(model) + 1) {
		return
	}
	if emptied && refilled {
		w.Count("cases_emptied_and_refilled", 1)
	}
	if len(c.Ops) >= 2 {
		w.NonTrivial(core.HashString(core.JSON(c)))
	}
	if w.WantSample() && emptied && refilled && len(c.Ops) >= 5 {
		w.Sample(c)
	}
}


// ---- bulk monitor: deep stacks (growth and shrink paths of the backing storage)

// BulkCase is a sequence of phases on one stack: k > 0 pushes k fresh values
// (1, 2, 3, ... so every value is unique), k < 0 pops |k| times.
type BulkCase struct {
	Linked bool  `json:"linked"`
	Phases []int `json:"phases"`
}

func runBulk(w *core.Worker, c BulkCase) {
	var impl st
	var model []int
	next := 1
	nm := "stack"
	if c.Linked {
		nm = "lstack"
		impl = stack.NewLinked(next)
		model = []int{next}
		next++
	} else {
		impl = stack.New[int]()
	}
	lastRemoved, maxHeld, steps := 0, 0, 0
	quick := func(what string) bool {
		if got := impl.Size(); got != len(model) {
			w.Violation(nm+".size", fmt.Sprintf("bulk: after %s (operation %d) Size()=%d, model holds %d elements", what, steps, got, len(model)))
			return false
		}
		want := 0
		if len(model) > 0 {
			want = model[len(model)-1]
		}
		if got := impl.Peek(); got != want {
			w.Violation(nm+".peek", fmt.Sprintf("bulk: after %s (operation %d) Peek()=%d, model top %d (%d held)", what, steps, got, want, len(model)))
			return false
		}
		return true
	}
	probes := func(phase int) bool {
		cand := map[int]bool{next + 7: false, 0: false}
		if lastRemoved != 0 {
			cand[lastRemoved] = false
		}
		if n := len(model); n > 0 {
			cand[model[0]], cand[model[n-1]], cand[model[n/2]] = true, true, true
		}
		for v, has := range cand {
			if got := impl.Search(v); got != has {
				w.Violation(nm+".search", fmt.Sprintf("bulk: after phase %d Search(%d)=%v, model says %v (%d held)", phase, v, got, has, len(model)))
				return false
			}
		}
		return true
	}
	p := core.Catch(func() {
		for pi, k := range c.Phases {
			switch {
			case k > 0:
				for ; k > 0; k-- {
					impl.Push(next)
					model = append(model, next)
					next++
					steps++
					if !quick("Push") {
						return
					}
				}
			case k < 0:
				for ; k < 0; k++ {
					v := impl.Pop()
					steps++
					if len(model) == 0 {
						if v != 0 {
							w.Violation(nm+".pop-on-empty", fmt.Sprintf("bulk: operation %d: Pop on an empty stack returned %d", steps, v))
							return
						}
					} else {
						top := model[len(model)-1]
						if v != top {
							below := 0
							if len(model) >= 2 {
								below = model[len(model)-2]
							}
							if c.Linked && v == below {
								// known finding (see run): what was removed is decided by the observation below
								w.Violation("lstack.pop-returns-element-below-top", fmt.Sprintf("bulk: operation %d: Pop returned %d, the top was %d", steps, v, top))
							} else {
								w.Violation(nm+".pop-value", fmt.Sprintf("bulk: operation %d: Pop returned %d, model top %d (%d held)", steps, v, top, len(model)))
								return
							}
						}
						lastRemoved = top
						model = model[:len(model)-1]
					}
					if !quick("Pop") {
						return
					}
				}
			}
			if len(model) > maxHeld {
				maxHeld = len(model)
			}
			w.Tick()
			if !probes(pi) {
				return
			}
		}
	})
	if p != nil {
		w.Violation(nm+".panic:bulk", fmt.Sprintf("bulk: operation %d panicked: %v (%d held)", steps, p, len(model)))
		return
	}
	w.Count("bulk_operations", int64(steps))
	if maxHeld >= 300 {
		w.NonTrivial(core.HashString(core.JSON(c)))
	}
	if w.WantSample() {
		w.Sample(map[string]any{"case": c, "max_held": maxHeld, "operations": steps})
	}
}


// ---- element types with identity: pointers and structs holding pointers. Two elements are the
// same only if == says so; elements that merely look alike (equal pointees) are different.

type PtrCase struct {
	Linked bool `json:"linked"`
	N      int  `json:"n"` // elements pushed
	Pops   int  `json:"pops"`
}

type pbox struct {
	p   *int
	tag string
}

func runPtr(w *core.Worker, c PtrCase) {
	nm := "stack"
	if c.Linked {
		nm = "lstack"
	}
	mkv := func(i int) *int { v := i % 2; return &v } // many equal pointees, all distinct pointers
	held := []*int{}
	never := mkv(0)
	p := core.Catch(func() {
		var push func(*int)
		var pop func() *int
		var search func(*int) bool
		var size func() int
		if c.Linked {
			first := mkv(0)
			s := stack.NewLinked(first)
			held = append(held, first)
			push, pop, search, size = s.Push, s.Pop, s.Search, s.Size
		} else {
			s := stack.New[*int]()
			push, pop, search, size = s.Push, s.Pop, s.Search, s.Size
		}
		for i := 0; i < c.N; i++ {
			v := mkv(i)
			push(v)
			held = append(held, v)
		}
		var gone []*int
		for k := 0; k < c.Pops && len(held) > 0; k++ {
			top := held[len(held)-1]
			got := pop()
			if !c.Linked && got != top {
				w.Violation(nm+".pop-value", fmt.Sprintf("pointer elements: Pop returned %p, the top was %p", got, top))
				return
			}
			held = held[:len(held)-1]
			gone = append(gone, top)
		}
		if size() != len(held) {
			w.Violation(nm+".size", fmt.Sprintf("pointer elements: Size()=%d, %d held", size(), len(held)))
			return
		}
		for _, h := range held {
			if !search(h) {
				w.Violation(nm+".search", fmt.Sprintf("pointer elements: Search(%p) is false for a held element", h))
				return
			}
		}
		for _, g := range append(gone, never) {
			if search(g) {
				w.Violation(nm+".search", fmt.Sprintf("pointer elements: Search(%p -> %d) is true although that pointer is not held (%d held elements with equal pointees exist)", g, *g, len(held)))
				return
			}
		}
		// structs with a pointer field
		sb := stack.New[pbox]()
		a, b := 1, 1
		sb.Push(pbox{&a, "x"})
		if sb.Search(pbox{&b, "x"}) || !sb.Search(pbox{&a, "x"}) {
			w.Violation("stack.search", "struct elements with a pointer field: Search confuses {&a,x} with {&b,x} (equal pointees, different pointers)")
		}
	})
	if p != nil {
		w.Violation(nm+".panic:pointer-elements", fmt.Sprintf("pointer elements panicked: %v", p))
		return
	}
	w.NonTrivial(core.HashString(core.JSON(c)))
}


// FuzzStack (thorough tier): coverage-guided fuzzing over phase scripts of the bulk monitor
// ((op, arg) byte pairs: small and large push / pop phases).
func FuzzStack(f *testing.F) {
	f.Add(false, []byte{1, 60, 3, 50, 0, 3, 2, 9})
	f.Add(true, []byte{0, 2, 2, 1, 1, 10, 3, 11, 0, 1})
	f.Fuzz(func(t *testing.T, linked bool, data []byte) {
		if len(data) > 48 {
			data = data[:48]
		}
		c := BulkCase{Linked: linked}
		total := 0
		for i := 0; i+1 < len(data); i += 2 {
			k := int(data[i+1])
			big := k*6 + 1
			if linked {
				big = k%40*6 + 1
			}
			switch data[i] % 4 {
			case 0:
				c.Phases = append(c.Phases, k%8+1)
				total += k%8 + 1
			case 1:
				c.Phases = append(c.Phases, big)
				total += big
			case 2:
				c.Phases = append(c.Phases, -(k%8 + 1))
			default:
				c.Phases = append(c.Phases, -big)
			}
			if total > 6000 {
				break
			}
		}
		w := core.Probe(func(sig, detail string) { t.Fatalf("VERIF-SIG %s\nVERIF-CASE %s\n%s", sig, core.JSON(c), detail) })
		runBulk(w, c)
	})
}

func TestProp(t *testing.T) {
	r := core.Start(t, "C06")
	defer r.Finish()
	r.Rule("cases = operation sequences on stack.Stack[int] and stack.LStack[int] (the linked one starting from its mandatory element) checked against a slice model: every Pop value, Size/Peek/Search of every probe value after every Pop and after the last step (sweep) or every step (random), then a drain that Peeks before each Pop and one Pop on the empty stack; non-trivial = at least 2 operations; stack-bulk: phases of hundreds to thousands of pushes of unique values and pops (to empty, beyond, almost, partly) with Size/Peek after every operation, every Pop value, membership probes after every phase; non-trivial = at least 300 elements were held at once; pointer-elements: the same containers over *int (all pointers distinct, pointees equal) and structs with a pointer field: identity of what is returned, Search true exactly for the held pointers; distinct by hash of the case")

	alpha := []Op{{"push", 1}, {"push", 2}, {"push", 3}, {K: "pop"}, {K: "peek"}}
	L := r.Pick(8, 10)
	core.Monitor(r, "stack-sweep", 0, func(emit func(Case)) {
		for _, linked := range []bool{false, true} {
			n := seq.Enum(alpha, L, func(ops []Op) { emit(Case{Linked: linked, Init: 3, Probe: 3, Ops: ops}) })
			r.Exhaustive(fmt.Sprintf("all sequences of length<=%d over {push 1..3, pop, read-only observation}, linked=%v", L, linked), n)
		}
	}, run)

	nRand := r.Pick(20000, 1000000)
	core.Monitor(r, "stack-random", 0, func(emit func(Case)) {
		rng := r.Rand("c06-random")
		for i := 0; i < nRand; i++ {
			c := Case{Linked: rng.Bool(), Init: rng.Intn(6), Probe: 6, Full: true}
			n := rng.Range(5, 60)
			for len(c.Ops) < n {
				switch ph := rng.Intn(4); ph {
				case 0:
					for k := rng.Intn(6); k >= 0; k-- {
						c.Ops = append(c.Ops, Op{"push", rng.Intn(6)})
					}
				case 1:
					for k := rng.Intn(8); k >= 0; k-- {
						c.Ops = append(c.Ops, Op{K: "pop"})
					}
				default:
					for k := rng.Intn(5); k >= 0; k-- {
						if rng.Bool() {
							c.Ops = append(c.Ops, Op{"push", rng.Intn(6)})
						} else {
							c.Ops = append(c.Ops, Op{K: "pop"})
						}
					}
				}
			}
			emit(c)
		}
	}, run)

	// deep stacks: fill to hundreds/thousands of elements, pop (completely, almost, partly), refill
	nBulk := r.Pick(48, 1500)
	core.Monitor(r, "stack-bulk", 0, func(emit func(BulkCase)) {
		rng := r.Rand("c06-bulk")
		for i := 0; i < nBulk; i++ {
			c := BulkCase{Linked: i%2 == 1}
			top := []int{300, 700, 1500, 3000}[rng.Intn(4)]
			if c.Linked && top > 1500 {
				top = 1500 // the linked stack works in linear time
			}
			held := 0
			for ph := rng.Range(3, 8); ph > 0; ph-- {
				up := rng.Range(top/2, top)
				c.Phases = append(c.Phases, up)
				held += up
				var down int
				switch rng.Intn(4) {
				case 0:
					down = held
				case 1:
					down = held + rng.Intn(3)
				case 2:
					down = held - rng.Range(1, 40)
				default:
					down = rng.Range(held/4, held)
				}
				c.Phases = append(c.Phases, -down)
				held -= down
				if held < 0 {
					held = 0
				}
			}
			emit(c)
		}
	}, runBulk)

	core.Monitor(r, "stack-pointer-elements", 0, func(emit func(PtrCase)) {
		for _, l := range []bool{false, true} {
			for n := 0; n <= 9; n++ {
				for pops := 0; pops <= n+1; pops++ {
					emit(PtrCase{Linked: l, N: n, Pops: pops})
				}
			}
		}
	}, runPtr)
}
