// C06 — stacks deliver elements last-in first-out without loss (DESIGN §4 C06).
// Oracle: reference-model trace monitor (slice model), both implementations.
package c06

import (
	"fmt"
	"testing"

	"github.com/esimov/gogu/stack"

	"verif/internal/core"
	"verif/internal/seq"
)

type Op struct {
	K string `json:"op"` // push pop peek
	V int    `json:"v,omitempty"`
}

type Case struct {
	Linked bool `json:"linked"`
	Init   int  `json:"init,omitempty"`
	Full   bool `json:"full,omitempty"`
	Probe  int  `json:"probe"`
	Ops    []Op `json:"ops"`
}

type st interface {
	Push(int)
	Pop() int
	Peek() int
	Search(int) bool
	Size() int
}

func name(c Case) string {
	if c.Linked {
		return "lstack"
	}
	return "stack"
}

func run(w *core.Worker, c Case) {
	var impl st
	var model []int
	if c.Linked {
		impl = stack.NewLinked(c.Init)
		model = []int{c.Init}
	} else {
		impl = stack.New[int]()
	}
	nm := name(c)
	emptied, refilled := false, false

	observe := func(step int) bool {
		ok := true
		p := core.Catch(func() {
			if got := impl.Size(); got != len(model) {
				w.Violation(nm+".size", fmt.Sprintf("after step %d: Size()=%d, model holds %v", step, got, model))
				ok = false
				return
			}
			want := 0
			if len(model) > 0 {
				want = model[len(model)-1]
			}
			if got := impl.Peek(); got != want {
				w.Violation(nm+".peek", fmt.Sprintf("after step %d: Peek()=%d, model top %d (model %v)", step, got, want, model))
				ok = false
				return
			}
			for v := 0; v <= c.Probe; v++ {
				has := false
				for _, x := range model {
					if x == v {
						has = true
					}
				}
				if got := impl.Search(v); got != has {
					w.Violation(nm+".search", fmt.Sprintf("after step %d: Search(%d)=%v, model %v", step, v, got, model))
					ok = false
					return
				}
			}
		})
		if p != nil {
			w.Violation(nm+".panic:observe", fmt.Sprintf("after step %d: observation panicked: %v (model %v)", step, p, model))
			return false
		}
		return ok
	}

	pop := func(step int) bool {
		var v int
		if p := core.Catch(func() { v = impl.Pop() }); p != nil {
			w.Violation(nm+".panic:pop", fmt.Sprintf("step %d: Pop panicked: %v (model %v)", step, p, model))
			return false
		}
		if len(model) == 0 {
			if v != 0 {
				w.Violation(nm+".pop-on-empty", fmt.Sprintf("step %d: Pop on an empty stack returned %d", step, v))
				return false
			}
			return true
		}
		top := model[len(model)-1]
		if v != top {
			below := 0
			if len(model) >= 2 {
				below = model[len(model)-2]
			}
			if c.Linked && v == below {
				// The linked stack's Pop hands back the element under the removed top (the zero value
				// when one element was held): pinned by stack.Example_linkedList (known finding). What
				// Pop *removed* is still checked by the Size/Peek/Search observation that follows.
				w.Violation("lstack.pop-returns-element-below-top", fmt.Sprintf("step %d: Pop returned %d, the top was %d (model %v)", step, v, top, model))
			} else {
				w.Violation(nm+".pop-value", fmt.Sprintf("step %d: Pop returned %d, model top %d (model %v)", step, v, top, model))
				return false
			}
		}
		model = model[:len(model)-1]
		if len(model) == 0 {
			emptied = true
		}
		return true
	}

	for i, op := range c.Ops {
		switch op.K {
		case "push":
			if p := core.Catch(func() { impl.Push(op.V) }); p != nil {
				w.Violation(nm+".panic:push", fmt.Sprintf("step %d %+v panicked: %v", i, op, p))
				return
			}
			if emptied {
				refilled = true
			}
			model = append(model, op.V)
		case "pop":
			if !pop(i) {
				return
			}
			// what was removed is decided by observation, always (not only in Full mode)
			if !observe(i) {
				return
			}
		case "peek":
			if !observe(i) {
				return
			}
		}
		if c.Full || i == len(c.Ops)-1 {
			if !observe(i) {
				return
			}
		}
	}
	for k, n := 0, len(model); k <= n; k++ { // drain (Peek before each Pop via observe), then Pop on empty
		if !observe(len(c.Ops) + k) {
			return
		}
		if !pop(len(c.Ops) + k) {
			return
		}
	}
	if !observe(len(c.Ops) + len(model) + 1) {
		return
	}
	if emptied && refilled {
		w.Count("cases_emptied_and_refilled", 1)
	}
	if len(c.Ops) >= 2 {
		w.NonTrivial(core.HashString(core.JSON(c)))
	}
	if w.WantSample() && emptied && refilled && len(c.Ops) >= 5 {
		w.Sample(c)
	}
}

func TestProp(t *testing.T) {
	r := core.Start(t, "C06")
	defer r.Finish()
	r.Rule("cases = operation sequences on stack.Stack[int] and stack.LStack[int] (the linked one starting from its mandatory element) checked against a slice model: every Pop value, Size/Peek/Search of every probe value after every Pop and after the last step (sweep) or every step (random), then a drain that Peeks before each Pop and one Pop on the empty stack; non-trivial = at least 2 operations; distinct by hash of the case")

	alpha := []Op{{"push", 1}, {"push", 2}, {"push", 3}, {K: "pop"}, {K: "peek"}}
	L := r.Pick(8, 10)
	core.Monitor(r, "stack-sweep", 0, func(emit func(Case)) {
		for _, linked := range []bool{false, true} {
			n := seq.Enum(alpha, L, func(ops []Op) { emit(Case{Linked: linked, Init: 3, Probe: 3, Ops: ops}) })
			r.Exhaustive(fmt.Sprintf("all sequences of length<=%d over {push 1..3, pop, read-only observation}, linked=%v", L, linked), n)
		}
	}, run)

	nRand := r.Pick(20000, 1000000)
	core.Monitor(r, "stack-random", 0, func(emit func(Case)) {
		rng := r.Rand("c06-random")
		for i := 0; i < nRand; i++ {
			c := Case{Linked: rng.Bool(), Init: rng.Intn(6), Probe: 6, Full: true}
			n := rng.Range(5, 60)
			for len(c.Ops) < n {
				switch ph := rng.Intn(4); ph {
				case 0:
					for k := rng.Intn(6); k >= 0; k-- {
						c.Ops = append(c.Ops, Op{"push", rng.Intn(6)})
					}
				case 1:
					for k := rng.Intn(8); k >= 0; k-- {
						c.Ops = append(c.Ops, Op{K: "pop"})
					}
				default:
					for k := rng.Intn(5); k >= 0; k-- {
						if rng.Bool() {
							c.Ops = append(c.Ops, Op{"push", rng.Intn(6)})
						} else {
							c.Ops = append(c.Ops, Op{K: "pop"})
						}
					}
				}
			}
			emit(c)
		}
	}, run)
}
