// C10 — B-tree behaves as an ordered map and stays balanced (DESIGN §4 C10).
// Oracle: reference-model trace monitor (map model + height bound).
package c10

import (
	"reflect"
	"fmt"
	"sort"
	"testing"

	"github.com/esimov/gogu/btree"

	"verif/internal/core"
	"verif/internal/seq"
)

type Op struct {
	K   string `json:"op"` // put remove get
	Key int    `json:"key"`
}

type Case struct {
	Full  bool `json:"full,omitempty"`
	Every int  `json:"every,omitempty"` // Full: observe every n-th step (0/1 = every step)
	Keys  int  `json:"keys"`            // probe keys -1..Keys
	Ops   []Op `json:"ops"`
}

func run(w *core.Worker, c Case) {
	t := btree.New[int, int]()
	model := map[int]int{}
	ever := map[int]bool{}
	removedHit, overwrite, reput := false, false, false
	wasRemoved := map[int]bool{}
	maxH := 0

	observe := func(step int) bool {
		if got := t.Size(); got != len(model) {
			w.Violation("btree.size", fmt.Sprintf("after step %d: Size()=%d, model holds %d keys", step, got, len(model)))
			return false
		}
		if got := t.IsEmpty(); got != (len(model) == 0) {
			w.Violation("btree.isempty", fmt.Sprintf("after step %d: IsEmpty()=%v, model holds %d keys", step, got, len(model)))
			return false
		}
		h := t.Height()
		if h > maxH {
			maxH = h
		}
		n := len(ever)
		if n < 1 {
			n = 1
		}
		if h < 0 || (1<<uint(h)) > n {
			w.Violation("btree.height", fmt.Sprintf("after step %d: Height()=%d exceeds log2(%d distinct keys ever inserted)", step, h, n))
			return false
		}
		for k := -1; k <= c.Keys; k++ {
			v, ok := t.Get(k)
			mv, has := model[k]
			if ok != has {
				sig := "btree.get-presence"
				if ok && wasRemoved[k] {
					sig = "btree.get-finds-removed-key"
				}
				w.Violation(sig, fmt.Sprintf("after step %d: Get(%d)=(%d,%v), model (%d,%v)", step, k, v, ok, mv, has))
				return false
			}
			if has && v != mv {
				w.Violation("btree.get-value", fmt.Sprintf("after step %d: Get(%d)=%d, model %d", step, k, v, mv))
				return false
			}
		}
		want := make([]int, 0, len(model))
		for k := range model {
			want = append(want, k)
		}
		sort.Ints(want)
		type kv struct{ k, v int }
		var got []kv
		t.Traverse(func(k, v int) { got = append(got, kv{k, v}) })
		if len(got) != len(want) {
			w.Violation("btree.traverse-length", fmt.Sprintf("after step %d: Traverse visited %v, model keys %v", step, got, want))
			return false
		}
		for i, k := range want {
			if got[i].k != k || got[i].v != model[k] {
				w.Violation("btree.traverse-order", fmt.Sprintf("after step %d: Traverse visited %v, want keys %v with values %v", step, got, want, model))
				return false
			}
		}
		// Re-entrant use: a Traverse started from inside a Traverse callback (a nested loop over the
		// map). Both walks must deliver the complete sequence just verified; walks must not share state.
		if len(got) > 0 {
			nestAt := (step + len(c.Ops)) % len(got)
			var outer, inner []kv
			p := core.Catch(func() {
				t.Traverse(func(k, v int) {
					outer = append(outer, kv{k, v})
					if len(outer) > len(got)+8 {
						panic("verif: traverse overrun")
					}
					if len(outer)-1 == nestAt {
						t.Traverse(func(k2, v2 int) {
							inner = append(inner, kv{k2, v2})
							if len(inner) > len(got)+8 {
								panic("verif: traverse overrun")
							}
						})
					}
				})
			})
			if p != nil {
				w.Violation("btree.nested-traverse-panic", fmt.Sprintf("after step %d: a Traverse nested in the callback of a Traverse at position %d panicked/overran: %v", step, nestAt, p))
				return false
			}
			if !reflect.DeepEqual(outer, got) || !reflect.DeepEqual(inner, got) {
				w.Violation("btree.nested-traverse", fmt.Sprintf("after step %d: Traverse with a nested Traverse started at position %d: outer walk %v, inner walk %v, a plain Traverse gives %v", step, nestAt, outer, inner, got))
				return false
			}
		}
		return true
	}

	for i, op := range c.Ops {
		var p any
		switch op.K {
		case "put":
			val := 100 + i
			p = core.Catch(func() { t.Put(op.Key, val) })
			if _, ok := model[op.Key]; ok {
				overwrite = true
			} else if wasRemoved[op.Key] {
				reput = true
			}
			model[op.Key] = val
			ever[op.Key] = true
			delete(wasRemoved, op.Key)
		case "remove":
			p = core.Catch(func() { t.Remove(op.Key) })
			if _, ok := model[op.Key]; ok {
				removedHit = true
				wasRemoved[op.Key] = true
			}
			delete(model, op.Key)
		case "get":
			var v int
			var ok bool
			p = core.Catch(func() { v, ok = t.Get(op.Key) })
			mv, has := model[op.Key]
			if p == nil && (ok != has || (has && v != mv)) {
				w.Violation("btree.get-value", fmt.Sprintf("step %d: Get(%d)=(%d,%v), model (%d,%v)", i, op.Key, v, ok, mv, has))
				return
			}
		}
		if p != nil {
			w.Violation("btree.panic:"+op.K, fmt.Sprintf("step %d %+v panicked: %v", i, op, p))
			return
		}
		if op.K == "remove" && p == nil {
			if got := t.Size(); got != len(model) { // Size is O(1): after every single Remove
				w.Violation("btree.size", fmt.Sprintf("after step %d (Remove(%d)): Size()=%d, model holds %d keys", i, op.Key, got, len(model)))
				return
			}
		}
		// the height bound is cheap to observe: after every single step
		if h := t.Height(); h >= 0 {
			n := len(ever)
			if n < 1 {
				n = 1
			}
			if (1 << uint(h)) > n {
				w.Violation("btree.height", fmt.Sprintf("after step %d: Height()=%d exceeds log2(%d distinct keys ever inserted)", i, h, n))
				return
			}
		}
		last := i == len(c.Ops)-1
		observeNow := last || (c.Full && (c.Every <= 1 || i%c.Every == 0))
		if observeNow && op.K != "get" {
			// read-your-write FIRST, before any other lookup touches the tree (a lookup may itself
			// change internal state - caches, lazily cleaned nodes): the key of this very step
			var v int
			var ok bool
			if p := core.Catch(func() { v, ok = t.Get(op.Key) }); p != nil {
				w.Violation("btree.panic:get", fmt.Sprintf("step %d: Get(%d) right after %+v panicked: %v", i, op.Key, op, p))
				return
			}
			mv, has := model[op.Key]
			if ok != has || (has && v != mv) {
				sig := "btree.get-value"
				if ok && !has {
					sig = "btree.get-finds-removed-key"
				}
				w.Violation(sig, fmt.Sprintf("step %d: Get(%d) right after %+v = (%d,%v), model (%d,%v)", i, op.Key, op, v, ok, mv, has))
				return
			}
		}
		if observeNow {
			good := true
			if p := core.Catch(func() { good = observe(i) }); p != nil {
				w.Violation("btree.panic:observe", fmt.Sprintf("observation after step %d panicked: %v", i, p))
				return
			}
			if !good {
				return
			}
		}
	}
	if removedHit || overwrite {
		w.NonTrivial(core.HashString(core.JSON(c)))
	}
	if reput {
		w.Count("cases_with_reput_after_remove", 1)
	}
	if maxH >= 2 {
		w.Count("cases_reaching_height_ge2", 1)
	}
	if maxH >= 4 {
		w.Count("cases_reaching_height_ge4", 1)
	}
	if w.WantSample() && len(c.Ops) >= 4 && len(c.Ops) <= 12 && removedHit {
		w.Sample(c)
	}
}


// FuzzBTree (thorough tier): coverage-guided fuzzing over Put/Remove/Get scripts with single keys
// and runs of 32 consecutive keys (ascending or descending), judged by the same run oracle.
func FuzzBTree(f *testing.F) {
	f.Add([]byte{3, 0, 3, 32, 4, 0, 0, 7, 2, 7, 1, 7, 2, 7})
	f.Add([]byte{5, 200, 0, 1, 1, 1, 1, 1, 0, 1})
	f.Fuzz(func(t *testing.T, data []byte) {
		if len(data) > 80 {
			data = data[:80]
		}
		c := Case{Full: true, Every: 9, Keys: -1}
		for i := 0; i+1 < len(data); i += 2 {
			k := int(data[i+1])
			switch data[i] % 6 {
			case 0:
				c.Ops = append(c.Ops, Op{"put", k})
			case 1:
				c.Ops = append(c.Ops, Op{"remove", k})
			case 2:
				c.Ops = append(c.Ops, Op{"get", k})
			case 3:
				for j := 0; j < 32; j++ {
					c.Ops = append(c.Ops, Op{"put", k + j})
				}
			case 4:
				for j := 0; j < 32; j++ {
					c.Ops = append(c.Ops, Op{"remove", k + j})
				}
			default:
				for j := 31; j >= 0; j-- {
					c.Ops = append(c.Ops, Op{"put", k + j})
				}
			}
		}
		if len(c.Ops) == 0 {
			return
		}
		w := core.Probe(func(sig, detail string) { t.Fatalf("VERIF-SIG %s\nVERIF-CASE %s\n%s", sig, core.JSON(c), detail) })
		run(w, c)
	})
}

// runIdentity: values with identity (pointers) held in an interface-typed tree, a quarter of the
// values being the nil interface (a legitimate value: the key is present, its value is nil). Every Put stores a fresh pointer whose pointee is
// drawn from {0,1}; Get and Traverse must hand back the very pointer put last (a store skipped
// because the contents "did not change" keeps the older one).
func runIdentity(w *core.Worker, c Case) {
	t := btree.New[int, any]()
	model := map[int]any{}
	overwrites := 0
	for i, op := range c.Ops {
		var p any
		switch op.K {
		case "put":
			pv := new(int)
			*pv = (op.Key + i/7) % 2
			var v any = pv
			if (op.Key+i)%4 == 0 {
				v = nil // the nil interface is a value like any other: present, with value nil
			}
			p = core.Catch(func() { t.Put(op.Key, v) })
			if _, ok := model[op.Key]; ok {
				overwrites++
			}
			model[op.Key] = v
		case "remove":
			p = core.Catch(func() { t.Remove(op.Key) })
			delete(model, op.Key)
		}
		if p != nil {
			w.Violation("btree.panic:"+op.K, fmt.Sprintf("pointer values, step %d %+v panicked: %v", i, op, p))
			return
		}
		for k := 0; k < c.Keys; k++ {
			v, ok := t.Get(k)
			mv, mok := model[k]
			if ok != mok || (ok && v != mv) {
				w.Violation("btree.identity-get", fmt.Sprintf("pointer values, after step %d (%+v): Get(%d) = (%v, %v), the pointer put last is %v (present=%v)", i, op, k, v, ok, mv, mok))
				return
			}
		}
		n, bad := 0, false
		t.Traverse(func(k int, v any) {
			n++
			if mv, ok := model[k]; !ok || mv != v {
				bad = true
			}
		})
		if bad || n != len(model) {
			w.Violation("btree.identity-traverse", fmt.Sprintf("pointer values, after step %d (%+v): Traverse visited %d entries (model %d) or delivered a pointer other than the one put last", i, op, n, len(model)))
			return
		}
	}
	if overwrites > 0 {
		w.NonTrivial(core.HashString("id" + core.JSON(c)))
	}
}

func TestProp(t *testing.T) {
	r := core.Start(t, "C10")
	defer r.Finish()
	r.Rule("cases = Put (fresh value per step)/Remove/Get sequences on btree.BTree[int,int] checked against a map model: Height <= log2(max(1, distinct keys ever inserted)) after every step, Size, IsEmpty, Get of the key just written/removed before any other lookup, then Get of every probe key and the full Traverse sequence (plain, and again with a second Traverse started from inside the callback), after the last step (sweep) or every 1st/2nd/5th/11th step (random) or periodically (bulk); non-trivial = the sequence overwrote or removed a present key; btree-identity-values: BTree[int,*int], every Put a fresh pointer with pointee in {0,1}, Get of every key and Traverse must return the pointer put last; btree-deep: sorted/reversed loads of 20 000+ keys and shuffled loads of 300-3000 keys of which all or most are removed again (Size after every Remove) and half re-put; btree-orders: insertion orders built from ascending/descending runs over shuffled contiguous key blocks, zigzag and middle-out orders; distinct by hash of the ops")

	var alpha []Op
	for k := 0; k <= 5; k++ {
		alpha = append(alpha, Op{"put", k}, Op{"remove", k})
	}
	L := r.Pick(6, 7)
	core.Monitor(r, "btree-sweep", 0, func(emit func(Case)) {
		n := seq.Enum(alpha, L, func(ops []Op) { emit(Case{Keys: 6, Ops: ops}) })
		r.Exhaustive(fmt.Sprintf("all Put/Remove sequences of length<=%d over keys 0..5", L), n)
	}, run)

	nRand := r.Pick(8000, 100000)
	core.Monitor(r, "btree-random", 0, func(emit func(Case)) {
		rng := r.Rand("c10-random")
		for i := 0; i < nRand; i++ {
			keys := []int{8, 24, 100}[rng.Intn(3)]
			c := Case{Full: true, Keys: keys, Every: []int{1, 1, 2, 5, 11}[rng.Intn(5)]}
			for n := rng.Range(8, 120); n > 0; n-- {
				k := rng.Intn(keys)
				switch x := rng.Intn(10); {
				case x < 5:
					c.Ops = append(c.Ops, Op{"put", k})
				case x < 8:
					c.Ops = append(c.Ops, Op{"remove", k})
					if rng.Chance(1, 3) {
						c.Ops = append(c.Ops, Op{"remove", k}, Op{"put", k})
					}
				default:
					c.Ops = append(c.Ops, Op{"get", k})
				}
			}
			emit(c)
		}
	}, run)

	nId := r.Pick(4000, 200000)
	core.Monitor(r, "btree-identity-values", 0, func(emit func(Case)) {
		rng := r.Rand("c10-identity")
		for i := 0; i < nId; i++ {
			keys := []int{3, 8, 24}[rng.Intn(3)]
			c := Case{Full: true, Keys: keys}
			for n := rng.Range(6, 60); n > 0; n-- {
				k := rng.Intn(keys)
				if rng.Intn(10) < 7 {
					c.Ops = append(c.Ops, Op{"put", k})
				} else {
					c.Ops = append(c.Ops, Op{"remove", k})
				}
			}
			emit(c)
		}
	}, runIdentity)

	// bulk loads: sorted / reversed / random order, interleaved removes and re-puts, multi-level splits
	nBulk := r.Pick(60, 400)
	core.Monitor(r, "btree-bulk", 0, func(emit func(Case)) {
		rng := r.Rand("c10-bulk")
		for i := 0; i < nBulk; i++ {
			n := rng.Range(200, r.Pick(2000, 50000))
			if !r.Quick() && i%20 != 0 {
				n = rng.Range(200, 5000)
			}
			order := make([]int, n)
			for j := range order {
				order[j] = j
			}
			switch i % 3 {
			case 1:
				for a, b := 0, n-1; a < b; a, b = a+1, b-1 {
					order[a], order[b] = order[b], order[a]
				}
			case 2:
				for j := n - 1; j > 0; j-- {
					k := rng.Intn(j + 1)
					order[j], order[k] = order[k], order[j]
				}
			}
			c := Case{Full: true, Every: n/7 + 1, Keys: -1}
			for _, k := range order {
				c.Ops = append(c.Ops, Op{"put", k})
				if rng.Chance(1, 10) {
					v := order[rng.Intn(n)]
					c.Ops = append(c.Ops, Op{"remove", v})
					if rng.Bool() {
						c.Ops = append(c.Ops, Op{"get", v}, Op{"put", v})
					}
				}
			}
			emit(c)
		}
	}, run)

	// deep trees and mass removal: sorted / reversed loads of 20 000 keys (height 13+), and loads
	// of 300-3000 keys of which all or most are removed again (removed entries outnumber live ones),
	// Size after every single Remove, full observation at the end of each phase
	nDeep := r.Pick(6, 60)
	core.Monitor(r, "btree-deep", 0, func(emit func(Case)) {
		rng := r.Rand("c10-deep")
		for i := 0; i < nDeep; i++ {
			c := Case{Full: true, Keys: -1}
			if i < 2 || i%10 == 0 {
				n := 20000 + rng.Intn(3000)
				c.Every = n / 2
				for k := 0; k < n; k++ {
					key := k
					if i%2 == 1 {
						key = n - k
					}
					c.Ops = append(c.Ops, Op{"put", key})
				}
				for k := 0; k < 40; k++ {
					v := rng.Intn(n)
					c.Ops = append(c.Ops, Op{"remove", v}, Op{"get", v}, Op{"put", v}, Op{"get", v})
				}
			} else {
				n := rng.Range(300, 3000)
				c.Every = n/3 + 1
				order := make([]int, n)
				for j := range order {
					order[j] = j
				}
				for j := n - 1; j > 0; j-- {
					k := rng.Intn(j + 1)
					order[j], order[k] = order[k], order[j]
				}
				for _, k := range order {
					c.Ops = append(c.Ops, Op{"put", k})
				}
				keep := []int{0, 1, n / 10, n / 3}[rng.Intn(4)]
				for j := n - 1; j > 0; j-- {
					k := rng.Intn(j + 1)
					order[j], order[k] = order[k], order[j]
				}
				for _, k := range order[keep:] {
					c.Ops = append(c.Ops, Op{"remove", k})
				}
				for _, k := range order[:n/2] { // refill half
					c.Ops = append(c.Ops, Op{"put", k})
				}
			}
			emit(c)
		}
	}, run)

	// insertion orders made of runs: the key range is cut into contiguous blocks, the blocks are
	// inserted in a shuffled order, each ascending or descending, optionally two at a time in
	// alternation; plus zigzag / organ-pipe / bit-reversal orders. Height is checked after every Put.
	nOrd := r.Pick(20000, 400000)
	core.Monitor(r, "btree-orders", 0, func(emit func(Case)) {
		rng := r.Rand("c10-orders")
		for i := 0; i < nOrd; i++ {
			n := rng.Range(4, []int{24, 64, 200}[rng.Intn(3)])
			var order []int
			switch rng.Intn(8) {
			case 0: // zigzag from the outside in
				for a, b := 0, n-1; a <= b; a, b = a+1, b-1 {
					order = append(order, a)
					if a != b {
						order = append(order, b)
					}
				}
			case 1: // from the middle outwards
				for d := 0; d <= n/2; d++ {
					if m := n/2 + d; m < n {
						order = append(order, m)
					}
					if m := n/2 - d - 1; m >= 0 {
						order = append(order, m)
					}
				}
			default: // blocks
				var blocks [][]int
				for lo := 0; lo < n; {
					l := rng.Range(1, 12)
					if lo+l > n {
						l = n - lo
					}
					b := make([]int, l)
					for j := range b {
						b[j] = lo + j
					}
					if rng.Bool() {
						for x, y := 0, l-1; x < y; x, y = x+1, y-1 {
							b[x], b[y] = b[y], b[x]
						}
					}
					blocks = append(blocks, b)
					lo += l
				}
				switch rng.Intn(3) {
				case 0: // keep ascending block order (sawtooth when the blocks descend)
				case 1:
					for x, y := 0, len(blocks)-1; x < y; x, y = x+1, y-1 {
						blocks[x], blocks[y] = blocks[y], blocks[x]
					}
				default:
					for j := len(blocks) - 1; j > 0; j-- {
						k := rng.Intn(j + 1)
						blocks[j], blocks[k] = blocks[k], blocks[j]
					}
				}
				if rng.Chance(1, 3) { // alternate between two blocks at a time
					for bi := 0; bi < len(blocks); bi += 2 {
						a := blocks[bi]
						var b []int
						if bi+1 < len(blocks) {
							b = blocks[bi+1]
						}
						for len(a) > 0 || len(b) > 0 {
							if len(a) > 0 {
								order = append(order, a[0])
								a = a[1:]
							}
							if len(b) > 0 {
								order = append(order, b[0])
								b = b[1:]
							}
						}
					}
				} else {
					for _, b := range blocks {
						order = append(order, b...)
					}
				}
			}
			c := Case{Keys: -1}
			for _, k := range order {
				c.Ops = append(c.Ops, Op{"put", k})
			}
			// a few removes and re-puts at the end (they must not change the bound either way)
			for j := rng.Intn(4); j > 0; j-- {
				k := order[rng.Intn(len(order))]
				c.Ops = append(c.Ops, Op{"remove", k}, Op{"put", k})
			}
			emit(c)
		}
	}, run)
}
