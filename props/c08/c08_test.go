// C08 — expiring cache stores, rejects, expires and cleans up exactly as
// documented (DESIGN §4 C08). Oracle: map-with-deadlines model evaluated at the
// same virtual instant (testing/synctest): every instant around a deadline is
// exactly observable, incl. 1 ns before and after it and the cleanup ticks.
package c08

import (
	"fmt"
	"sort"
	"testing"
	"testing/synctest"
	"time"

	"github.com/esimov/gogu/cache"

	"verif/internal/core"
	"verif/internal/seq"
)

type Op struct {
	K    string   `json:"op"` // set update delete flush purge m2c adv
	Key  string   `json:"key,omitempty"`
	Dur  string   `json:"dur,omitempty"` // default none short long tiny
	Bad  bool     `json:"empty_value,omitempty"`
	Adv  string   `json:"adv,omitempty"` // small | before | after | long  (relative to the earliest pending deadline)
	Keys []string `json:"keys,omitempty"`
}

type Case struct {
	DefMs   int  `json:"default_ms"` // -1, 0, >0
	Cleanup bool `json:"cleanup"`
	Ops     []Op `json:"ops"`
}

const (
	short    = 4 * time.Millisecond
	long     = 40 * time.Millisecond
	interval = 7*time.Millisecond + 3700*time.Nanosecond // cleanup period: never lands on a whole millisecond within a case
)

func durOf(name string) time.Duration {
	switch name {
	case "none":
		return cache.NoExpiration
	case "short":
		return short
	case "long":
		return long
	case "tiny":
		return time.Nanosecond // smallest positive duration: the entry is expired 2 ns later
	}
	return cache.DefaultExpiration
}

type entry struct {
	val         string
	deadline    int64 // absolute UnixNano; 0 = never expires
	maybePurged bool  // a purge happened exactly at the deadline: presence is open
}

type model struct {
	def     time.Duration
	stored  map[string]*entry
	t0      int64 // creation instant (phase of the cleanup ticks)
	cleanup bool
}

const (
	missing = iota
	live
	boundary
	expired
)

func (m *model) status(k string, now int64) int {
	e := m.stored[k]
	switch {
	case e == nil:
		return missing
	case e.deadline == 0 || now < e.deadline:
		return live
	case now == e.deadline:
		return boundary
	}
	return expired
}

func (m *model) deadline(d time.Duration, now int64) int64 {
	if d == cache.DefaultExpiration {
		d = m.def
	}
	if d > 0 {
		return now + int64(d)
	}
	return 0
}

func (m *model) purge(now int64) {
	for k, e := range m.stored {
		if e.deadline > 0 && now > e.deadline {
			delete(m.stored, k)
		} else if e.deadline > 0 && now == e.deadline {
			e.maybePurged = true
		}
	}
}

// ticks applies the cleanup ticks in (from, to].
func (m *model) ticks(from, to int64) {
	if !m.cleanup {
		return
	}
	k := (from-m.t0)/int64(interval) + 1
	for tk := m.t0 + k*int64(interval); tk <= to; tk += int64(interval) {
		m.purge(tk)
	}
}

func (m *model) earliest(now int64) (int64, bool) {
	var best int64
	for _, e := range m.stored {
		if e.deadline > now && (best == 0 || e.deadline < best) {
			best = e.deadline
		}
	}
	return best, best != 0
}

func run(w *core.Worker, c Case) {
	var viol, detail string
	fail := func(sig, format string, a ...any) {
		if viol == "" {
			viol, detail = "cache."+sig, fmt.Sprintf(format, a...)
		}
	}
	timed, expiredSeen, purgedByTick := false, false, false
	p := core.Catch(func() {
		synctest.Test(w.R.T.(*testing.T), func(t *testing.T) {
			def := time.Duration(c.DefMs) * time.Millisecond
			if c.DefMs < 0 {
				def = cache.NoExpiration
			}
			var cl time.Duration
			if c.Cleanup {
				cl = interval
			}
			ch := cache.New[string, string](def, cl)
			defer ch.VerifStopCleanup()
			m := &model{def: def, stored: map[string]*entry{}, t0: time.Now().UnixNano(), cleanup: c.Cleanup}
			keys := []string{"a", "b", "c"}

			observe := func(step int) bool {
				now := time.Now().UnixNano()
				nLive, nStored := 0, 0
				for _, k := range keys {
					st := m.status(k, now)
					e := m.stored[k]
					if e != nil {
						nStored++
					}
					if st == live {
						nLive++
					}
					it, err := ch.Get(k)
					switch st {
					case live:
						if err != nil || it == nil || it.Val() != e.val {
							sig := "get-live-entry"
							if e.deadline == 0 {
								sig = "get-never-expiring-entry-lost"
							} else if err != nil {
								sig = "live-entry-reported-expired"
							}
							fail(sig, "after step %d at t=+%dns: Get(%s)=(%v,%v), model: live value %q deadline +%d", step, now-m.t0, k, valOf(it), err, e.val, rel(e.deadline, m.t0))
							return false
						}
					case missing, expired:
						if e != nil && e.maybePurged {
							break
						}
						if err == nil {
							sig := "get-missing-entry"
							if st == expired {
								sig = "expired-entry-reported-live"
								expiredSeen = true
							}
							fail(sig, "after step %d at t=+%dns: Get(%s)=(%v,nil), model: %s", step, now-m.t0, k, valOf(it), []string{"missing", "", "", "expired"}[st])
							return false
						}
						if st == expired {
							expiredSeen = true
						}
					}
					ie := ch.IsExpired(k)
					switch {
					case st == boundary || (e != nil && e.maybePurged):
					case st == expired && !ie:
						fail("isexpired-false-for-expired-entry", "after step %d at t=+%dns: IsExpired(%s)=false, model: stored, deadline +%d passed", step, now-m.t0, k, rel(e.deadline, m.t0))
						return false
					case st != expired && ie:
						fail("isexpired-true-for-live-or-missing", "after step %d at t=+%dns: IsExpired(%s)=true, model status %d", step, now-m.t0, k, st)
						return false
					}
				}
				if n := ch.Count(); n < nLive || n > nStored {
					fail("count", "after step %d at t=+%dns: Count()=%d, model: %d live, %d stored", step, now-m.t0, n, nLive, nStored)
					return false
				}
				lst := ch.List()
				for k, it := range lst {
					e := m.stored[k]
					if e == nil || it == nil || it.Val() != e.val {
						fail("list-foreign-entry", "after step %d: List() contains %s=%v, model stored: %v", step, k, valOf(it), e)
						return false
					}
				}
				for _, k := range keys {
					if m.status(k, now) == live {
						if it, ok := lst[k]; !ok || it.Val() != m.stored[k].val {
							fail("list-misses-live-entry", "after step %d: List() lacks the live entry %s", step, k)
							return false
						}
					}
				}
				return true
			}

			setLike := func(step int, op Op, k, v string, d time.Duration) (wantErr, either bool) {
				now := time.Now().UnixNano()
				st := m.status(k, now)
				if e := m.stored[k]; e != nil && e.maybePurged {
					either = true
				}
				switch {
				case st == live:
					return true, either
				case st == boundary:
					return false, true
				case v == "":
					return true, either
				}
				return false, either
			}

			for i, op := range c.Ops {
				now := time.Now().UnixNano()
				val := fmt.Sprintf("v%d", i)
				if op.Bad {
					val = ""
				}
				d := durOf(op.Dur)
				switch op.K {
				case "set":
					wantErr, either := setLike(i, op, op.Key, val, d)
					var err error
					if d == cache.DefaultExpiration && i%2 == 0 {
						err = ch.SetDefault(op.Key, val)
					} else {
						err = ch.Set(op.Key, val, d)
					}
					if !either && wantErr != (err != nil) {
						sig := "set-duplicate-accepted"
						if err != nil {
							sig = "set-rejected-free-key"
						} else if val == "" && m.status(op.Key, now) != live {
							sig = "set-rejected-value-not-reported"
						}
						fail(sig, "step %d at t=+%dns: Set(%s,%q,%s) err=%v, model status %d, error expected: %v", i, now-m.t0, op.Key, val, op.Dur, err, m.status(op.Key, now), wantErr)
						return
					}
					if err == nil && val != "" {
						m.stored[op.Key] = &entry{val: val, deadline: m.deadline(d, now)}
					}
				case "update":
					err := ch.Update(op.Key, val, d)
					if (val == "") != (err != nil) {
						fail("update-result", "step %d: Update(%s,%q,%s) err=%v", i, op.Key, val, op.Dur, err)
						return
					}
					if val != "" {
						m.stored[op.Key] = &entry{val: val, deadline: m.deadline(d, now)}
					}
				case "delete":
					err := ch.Delete(op.Key)
					st := m.status(op.Key, now)
					e := m.stored[op.Key]
					if st == live && err != nil && !e.maybePurged || st == missing && err == nil {
						fail("delete-result", "step %d: Delete(%s) err=%v, model status %d", i, op.Key, err, st)
						return
					}
					delete(m.stored, op.Key)
				case "flush":
					ch.Flush()
					m.stored = map[string]*entry{}
				case "purge":
					ch.DeleteExpired()
					m.purge(now)
				case "m2c":
					in := map[string]string{}
					wantErr, either := false, false
					for j, k := range op.Keys {
						v := fmt.Sprintf("m%d_%d", i, j)
						if op.Bad && j == 0 {
							v = ""
						}
						in[k] = v
						we, ei := setLike(i, op, k, v, d)
						wantErr = wantErr || we
						either = either || ei
					}
					err := ch.MapToCache(in, d)
					if !either && wantErr != (err != nil) {
						sig := "maptocache-error-not-reported"
						if err != nil {
							sig = "maptocache-spurious-error"
						}
						fail(sig, "step %d: MapToCache(%v,%s) err=%v, error expected: %v", i, in, op.Dur, err, wantErr)
						return
					}
					for k, v := range in {
						st := m.status(k, now)
						if v != "" && (st == missing || st == expired) {
							m.stored[k] = &entry{val: v, deadline: m.deadline(d, now)}
						} else if st == boundary {
							// adopt what happened
							if it, e2 := ch.Get(k); e2 == nil && it.Val() == v {
								m.stored[k] = &entry{val: v, deadline: m.deadline(d, now)}
							}
						}
					}
				case "adv":
					var dt time.Duration
					dl, ok := m.earliest(now)
					switch op.Adv {
					case "before":
						if !ok || dl-now <= 1 {
							dt = time.Millisecond
						} else {
							dt = time.Duration(dl-now) - 1
						}
					case "after":
						if !ok {
							dt = time.Millisecond
						} else {
							dt = time.Duration(dl-now) + 1
						}
					case "long":
						dt = 2*long + time.Millisecond
					default:
						dt = time.Millisecond
					}
					time.Sleep(dt)
					synctest.Wait()
					timed = true
					before := len(m.stored)
					m.ticks(now, time.Now().UnixNano())
					if len(m.stored) < before {
						purgedByTick = true
					}
				}
				if !observe(i) {
					return
				}
			}
		})
	})
	if p != nil && viol == "" {
		viol, detail = "cache.panic", fmt.Sprintf("panicked: %v", p)
	}
	if viol != "" {
		w.Violation(viol, detail)
		return
	}
	if len(c.Ops) >= 2 {
		w.NonTrivial(core.HashString(core.JSON(c)))
	}
	if timed {
		w.Count("cases_with_time_advance", 1)
	}
	if expiredSeen {
		w.Count("cases_observing_an_expired_unpurged_entry", 1)
	}
	if purgedByTick {
		w.Count("cases_with_entries_removed_by_cleanup_tick", 1)
	}
	if w.WantSample() && expiredSeen && len(c.Ops) >= 4 {
		w.Sample(c)
	}
}

func valOf(it *cache.Item[string]) string {
	if it == nil {
		return "<nil>"
	}
	return fmt.Sprintf("%q", it.Val())
}

func rel(dl, t0 int64) int64 {
	if dl == 0 {
		return 0
	}
	return dl - t0
}

func alphabet(keys []string) []Op {
	var a []Op
	for _, k := range keys {
		for _, d := range []string{"default", "none", "short", "long"} {
			a = append(a, Op{K: "set", Key: k, Dur: d})
		}
		a = append(a, Op{K: "update", Key: k, Dur: "default"}, Op{K: "update", Key: k, Dur: "short"}, Op{K: "delete", Key: k})
	}
	a = append(a, Op{K: "set", Key: keys[0], Dur: "default", Bad: true}, Op{K: "flush"}, Op{K: "purge"},
		Op{K: "m2c", Keys: []string{"a", "c"}, Dur: "short"}, Op{K: "m2c", Keys: []string{"a", "b"}, Dur: "default", Bad: true},
		Op{K: "adv", Adv: "small"}, Op{K: "adv", Adv: "before"}, Op{K: "adv", Adv: "after"}, Op{K: "adv", Adv: "long"})
	return a
}

type cfg struct {
	def     int
	cleanup bool
}

var cfgs = []cfg{{-1, false}, {0, false}, {16, false}, {-1, true}, {0, true}, {16, true}}


// ---- bulk monitor: hundreds to thousands of entries expiring at the same moment

type BulkCase struct {
	N       int    `json:"n"`
	Cleanup bool   `json:"cleanup"`
	DefMs   int    `json:"default_ms"`
	Seed    uint64 `json:"seed"`
}

func runBulk(w *core.Worker, c BulkCase) {
	var viol, detail string
	fail := func(sig, format string, a ...any) {
		if viol == "" {
			viol, detail = "cache."+sig, fmt.Sprintf(format, a...)
		}
	}
	p := core.Catch(func() {
		synctest.Test(w.R.T.(*testing.T), func(t *testing.T) {
			rng := core.NewRand(c.Seed)
			def := time.Duration(c.DefMs) * time.Millisecond
			var cl time.Duration
			if c.Cleanup {
				cl = interval
			}
			ch := cache.New[string, string](def, cl)
			defer ch.VerifStopCleanup()
			class := map[string]int{} // 0 short, 1 long, 2 never
			viaMap := map[string]string{}
			for i := 0; i < c.N; i++ {
				k := fmt.Sprintf("k%04d", i)
				cls := rng.Intn(3)
				class[k] = cls
				d := []time.Duration{short, long, cache.NoExpiration}[cls]
				if cls == 0 && i%2 == 0 {
					viaMap[k] = "v" + k
					continue
				}
				if err := ch.Set(k, "v"+k, d); err != nil {
					fail("set-new-key-rejected", "bulk: Set(%s) on a fresh key returned %v", k, err)
					return
				}
			}
			if err := ch.MapToCache(viaMap, short); err != nil {
				fail("maptocache-error-lost", "bulk: MapToCache of %d fresh keys returned %v", len(viaMap), err)
				return
			}
			check := func(phase string, goneBelow int) bool {
				want := 0
				for k, cls := range class {
					it, err := ch.Get(k)
					if cls < goneBelow {
						if err == nil {
							fail("expired-entry-reported-live", "bulk %s: Get(%s)=(%v,nil) although its deadline has passed", phase, k, valOf(it))
							return false
						}
						continue
					}
					want++
					if err != nil || it.Val() != "v"+k {
						fail("live-entry-reported-expired", "bulk %s: Get(%s)=(%v,%v) for a live entry", phase, k, valOf(it), err)
						return false
					}
				}
				if n := ch.Count(); n != want {
					fail("count-after-purge", "bulk %s: Count()=%d after the purge, %d entries are live (%d stored in all)", phase, n, want, c.N)
					return false
				}
				if l := ch.List(); len(l) != want {
					fail("list-after-purge", "bulk %s: List() has %d entries after the purge, %d are live", phase, len(l), want)
					return false
				}
				return true
			}
			purge := func() {
				if c.Cleanup {
					time.Sleep(2*interval + 999*time.Nanosecond) // at least one full cleanup pass after the deadline
					synctest.Wait()
				} else if err := ch.DeleteExpired(); err != nil {
					fail("purge-error", "bulk: DeleteExpired returned %v", err)
				}
			}
			time.Sleep(short + 1001*time.Nanosecond)
			purge()
			if !check("after the short deadline", 1) {
				return
			}
			time.Sleep(long)
			purge()
			check("after the long deadline", 2)
		})
	})
	if p != nil && viol == "" {
		viol, detail = "cache.panic", fmt.Sprintf("bulk case panicked: %v", p)
	}
	if viol != "" {
		w.Violation(viol, detail)
		return
	}
	w.NonTrivial(core.HashString(core.JSON(c)))
	if w.WantSample() {
		w.Sample(c)
	}
}

func TestProp(t *testing.T) {
	r := core.Start(t, "C08")
	defer r.Finish()
	r.Rule("cache-bulk: 200-3000 entries with short/long/no expiry (half of the short ones through MapToCache), purged by DeleteExpired or by the cleanup goroutine after each deadline: Count, List and every Get exact || cases = operation sequences on cache.Cache[string,string] (Set/SetDefault/Update/Delete/Flush/DeleteExpired/MapToCache incl. rejected empty values, and Advance steps that move the virtual clock to 1 ns before / 1 ns after the earliest pending deadline, by 1 ms, or past everything) inside a testing/synctest bubble, for default expiry in {-1,0,16ms} x cleanup {off, 7.0037ms}; after EVERY step Get and IsExpired of every key, Count (between live and stored) and List (live entries present, nothing foreign) are compared with a map-with-deadlines model evaluated at the same virtual instant; cleanup ticks are applied to the model at exact multiples of the interval; non-trivial = at least 2 operations; distinct by hash of (configuration, ops)")

	L := r.Pick(4, 5)
	core.Monitor(r, "cache-sweep", 0, func(emit func(Case)) {
		a := alphabet([]string{"a", "b"})
		for _, cf := range cfgs {
			n := seq.Enum(a, L, func(ops []Op) { emit(Case{DefMs: cf.def, Cleanup: cf.cleanup, Ops: ops}) })
			r.Exhaustive(fmt.Sprintf("all sequences of length<=%d over %d operations on 2 keys, default=%dms cleanup=%v", L, len(a), cf.def, cf.cleanup), n)
		}
	}, run)

	nRand := r.Pick(5000, 100000)
	core.Monitor(r, "cache-random", 0, func(emit func(Case)) {
		rng := r.Rand("c08-random")
		a := alphabet([]string{"a", "b", "c"})
		var advs, others []Op
		for _, o := range a {
			if o.K == "adv" {
				advs = append(advs, o)
			} else {
				others = append(others, o)
			}
		}
		for _, k := range []string{"a", "b", "c"} {
			others = append(others, Op{K: "set", Key: k, Dur: "tiny"}, Op{K: "update", Key: k, Dur: "tiny"})
		}
		for _, cf := range cfgs {
			for i := 0; i < nRand; i++ {
				c := Case{DefMs: cf.def, Cleanup: cf.cleanup}
				for n := rng.Range(5, 25); n > 0; n-- {
					if rng.Chance(1, 3) {
						c.Ops = append(c.Ops, advs[rng.Intn(len(advs))])
					} else {
						c.Ops = append(c.Ops, others[rng.Intn(len(others))])
					}
				}
				emit(c)
			}
		}
	}, run)
	_ = sort.Strings

	core.Monitor(r, "cache-bulk", 0, func(emit func(BulkCase)) {
		rng := r.Rand("c08-bulk")
		for i := r.Pick(24, 400); i > 0; i-- {
			emit(BulkCase{N: []int{200, 600, 1100, 3000}[rng.Intn(4)] + rng.Intn(9), Cleanup: i%2 == 0, DefMs: []int{-1, 0, 40}[rng.Intn(3)], Seed: rng.Uint64()})
		}
	}, runBulk)
}
