// C13 — search, selection, aggregate and numeric helpers agree with their
// definitions (DESIGN §4 C13). Oracle: definitional checkers.
package c13

import (
	"reflect"
	"math"
	"fmt"
	"testing"

	"github.com/esimov/gogu"

	"verif/internal/core"
	"verif/internal/seq"
)

type Case struct {
	Fn   string           `json:"fn"`
	S    []int            `json:"s,omitempty"`
	V    int              `json:"v,omitempty"`
	Key  string           `json:"key,omitempty"`
	Args []float64        `json:"args,omitempty"` // Range arguments (integral for T=int)
	T    string           `json:"t,omitempty"`    // int | float
	Maps []map[string]int `json:"maps,omitempty"`
}

func keyFn(name string) func(int) int {
	switch name {
	case "mod3":
		return func(x int) int { return ((x % 3) + 3) % 3 }
	case "neg":
		return func(x int) int { return -x }
	case "const":
		return func(int) int { return 5 }
	}
	return func(x int) int { return x }
}

var keyFns = []string{"id", "mod3", "neg", "const"}

func predOf(name string, v int) func(int) bool {
	switch name {
	case "true":
		return func(int) bool { return true }
	case "false":
		return func(int) bool { return false }
	case "gt":
		return func(x int) bool { return x > v }
	}
	return func(x int) bool { return x == v }
}

func eqI(a, b []int) bool {
	if len(a) != len(b) {
		return false
	}
	for i := range a {
		if a[i] != b[i] {
			return false
		}
	}
	return true
}

func eqF(a, b []float64) bool {
	if len(a) != len(b) {
		return false
	}
	for i := range a {
		if a[i] != b[i] {
			return false
		}
	}
	return true
}

// refRange: the progression for non-erroring arguments; mustErr: an error is required;
// mayErr: the combination is documented-invalid, so an error is accepted as well.
func refRange(args []float64) (out []float64, mustErr, mayErr bool) {
	var start, step, end float64
	switch len(args) {
	case 0:
		return nil, false, true
	case 1:
		step, end = 1, args[0]
	case 2:
		start, step, end = args[0], 1, args[1]
	case 3:
		start, step, end = args[0], args[1], args[2]
		if step == 0 {
			return nil, true, true
		}
		// the two documented-invalid combinations of the 3-argument form ("the end value should be
		// greater than start value"; a negative step with end > start): "invalid argument combinations
		// yield an error"
		if (start > end && end > 0) || (step < 0 && end > start) {
			return nil, true, true
		}
	default:
		return nil, true, true
	}
	if step < 0 {
		step = -step
	}
	out = []float64{}
	if end > 0 {
		for i := start; i < end; i += step {
			out = append(out, i)
		}
	} else {
		for i := start; i > end; i -= step {
			out = append(out, i)
		}
	}
	return out, false, mayErr
}

func run(w *core.Worker, c Case) {
	// Every second case hands its slice arguments over with spare capacity behind them (filled with
	// values that would distort every answer): a helper that consults cap where it means len, or that
	// reslices beyond the length, becomes observable. Empty inputs are tried in all three shapes.
	if len(c.S) == 0 && len(c.Maps) == 0 && len(c.Args) == 0 {
		runWith(w, c, 1)
		runWith(w, c, 2)
		runWith(w, c, 0)
		return
	}
	runWith(w, c, int(core.HashString(core.JSON(c))%3))
}

func runWith(w *core.Worker, c Case, sp int) {
	fail := func(sig, format string, a ...any) { w.Violation("c13."+c.Fn+"."+sig, fmt.Sprintf(format, a...)) }
	s := c.S
	if sp > 0 {
		buf := make([]int, len(c.S), len(c.S)+2*sp)
		copy(buf, c.S)
		for i, rest := 0, buf[len(buf):cap(buf)]; i < len(rest); i++ {
			rest[i] = []int{-1 << 40, 1 << 40, c.V}[i%3]
		}
		s = buf
		ms := make([]map[string]int, len(c.Maps), len(c.Maps)+sp)
		copy(ms, c.Maps)
		for i, rest := 0, ms[len(ms):cap(ms)]; i < len(rest); i++ {
			rest[i] = map[string]int{"a": []int{-1 << 40, 1 << 40}[i%2]}
		}
		if c.Maps != nil {
			c.Maps = ms
		}
	}
	nontrivial := len(s) >= 2
	p := core.Catch(func() {
		switch c.Fn {
		case "IndexOf", "LastIndexOf", "Contains":
			first, last := -1, -1
			for i, x := range s {
				if x == c.V {
					if first < 0 {
						first = i
					}
					last = i
				}
			}
			if got := gogu.IndexOf(s, c.V); got != first {
				fail("IndexOf", "IndexOf(%v,%d)=%d want %d", s, c.V, got, first)
			}
			if got := gogu.LastIndexOf(s, c.V); got != last {
				fail("LastIndexOf", "LastIndexOf(%v,%d)=%d want %d", s, c.V, got, last)
			}
			if got := gogu.Contains(s, c.V); got != (first >= 0) {
				fail("Contains", "Contains(%v,%d)=%v", s, c.V, got)
			}
			nontrivial = first >= 0 && first != last
		case "FindIndex", "FindLastIndex", "FindAll", "Some", "Every":
			pr := predOf(c.Key, c.V)
			first, last, n := -1, -1, 0
			all := map[int]int{}
			for i, x := range s {
				if pr(x) {
					if first < 0 {
						first = i
					}
					last = i
					n++
					all[i] = x
				}
			}
			if got := gogu.FindIndex(s, pr); got != first {
				fail("FindIndex", "FindIndex(%v,%s %d)=%d want %d", s, c.Key, c.V, got, first)
			}
			if got := gogu.FindLastIndex(s, pr); got != last {
				fail("FindLastIndex", "FindLastIndex(%v,%s %d)=%d want %d", s, c.Key, c.V, got, last)
			}
			got := gogu.FindAll(s, pr)
			if len(got) != len(all) {
				fail("FindAll", "FindAll(%v,%s %d)=%v want %v", s, c.Key, c.V, got, all)
			} else {
				for i, x := range all {
					if gv, ok := got[i]; !ok || gv != x {
						fail("FindAll", "FindAll(%v,%s %d)=%v want %v", s, c.Key, c.V, got, all)
						break
					}
				}
			}
			if got := gogu.Some(s, pr); got != (n > 0) {
				fail("Some", "Some(%v,%s %d)=%v", s, c.Key, c.V, got)
			}
			if got := gogu.Every(s, pr); got != (n == len(s)) {
				fail("Every", "Every(%v,%s %d)=%v", s, c.Key, c.V, got)
			}
			nontrivial = n > 0 && n < len(s)
		case "MinMax":
			min, max := 0, 0
			for i, x := range s {
				if i == 0 || x < min {
					min = x
				}
				if i == 0 || x > max {
					max = x
				}
			}
			if got := gogu.FindMin(s); got != min {
				fail("FindMin", "FindMin(%v)=%d want %d", s, got, min)
			}
			if got := gogu.FindMax(s); got != max {
				fail("FindMax", "FindMax(%v)=%d want %d", s, got, max)
			}
			if q := core.Catch(func() {
				if got := gogu.Min(s...); got != min {
					fail("Min", "Min(%v...)=%d want %d", s, got, min)
				}
			}); q != nil {
				fail("Min-panic", "Min(%v...) panicked: %v", s, q)
			}
			if q := core.Catch(func() {
				if got := gogu.Max(s...); got != max {
					fail("Max", "Max(%v...)=%d want %d", s, got, max)
				}
			}); q != nil {
				fail("Max-panic", "Max(%v...) panicked: %v", s, q)
			}
			sum := 0
			for _, x := range s {
				sum += x
			}
			if got := gogu.Sum(s); got != sum {
				fail("Sum", "Sum(%v)=%d want %d", s, got, sum)
			}
			if got := gogu.SumBy(s, func(x int) int { return 2*x + 1 }); got != 2*sum+len(s) {
				fail("SumBy", "SumBy(%v,2x+1)=%d want %d", s, got, 2*sum+len(s))
			}
			if len(s) > 0 {
				if got := gogu.Mean(s); got != sum/len(s) {
					fail("Mean", "Mean(%v)=%d want %d", s, got, sum/len(s))
				}
				fs := make([]float64, len(s))
				fsum := 0.0
				for i, x := range s {
					fs[i] = float64(x) / 4
					fsum += fs[i]
				}
				if got := gogu.Mean(fs); got != fsum/float64(len(fs)) {
					fail("Mean-float", "Mean(%v)=%v want %v", fs, got, fsum/float64(len(fs)))
				}
				if got := gogu.Sum(fs); got != fsum {
					fail("Sum-float", "Sum(%v)=%v want %v", fs, got, fsum)
				}
			}
		case "MinMaxBy":
			kf := keyFn(c.Key)
			min, max := 0, 0
			for i, x := range s {
				if i == 0 || kf(x) < kf(min) {
					min = x
				}
				if i == 0 || kf(x) > kf(max) {
					max = x
				}
			}
			if got := gogu.FindMinBy(s, kf); got != min {
				fail("FindMinBy", "FindMinBy(%v,%s)=%d want the first minimal element %d", s, c.Key, got, min)
			}
			if got := gogu.FindMaxBy(s, kf); got != max {
				fail("FindMaxBy", "FindMaxBy(%v,%s)=%d want the first maximal element %d", s, c.Key, got, max)
			}
		case "ByKey":
			var have []int
			allHave := true
			for _, m := range c.Maps {
				if v, ok := m["a"]; ok {
					have = append(have, v)
				} else {
					allHave = false
				}
			}
			min, max := 0, 0
			for i, x := range have {
				if i == 0 || x < min {
					min = x
				}
				if i == 0 || x > max {
					max = x
				}
			}
			check := func(name string, got int, err error, want int) {
				switch {
				case len(c.Maps) == 0:
					if got != 0 {
						fail(name, "%s([], a) = (%d,%v), want the zero value", name, got, err)
					}
				case allHave:
					if err != nil || got != want {
						fail(name, "%s(%v, a) = (%d,%v), want %d", name, c.Maps, got, err, want)
					}
				default: // some map lacks the key: an error, or the extremum over those that have it
					if err == nil && got != want {
						fail(name, "%s(%v, a) = (%d,nil), want %d or an error", name, c.Maps, got, want)
					}
				}
			}
			if q := core.Catch(func() {
				got, err := gogu.FindMinByKey(c.Maps, "a")
				check("FindMinByKey", got, err, min)
			}); q != nil {
				fail("FindMinByKey-panic", "FindMinByKey(%v, a) panicked: %v", c.Maps, q)
			}
			if q := core.Catch(func() {
				got, err := gogu.FindMaxByKey(c.Maps, "a")
				check("FindMaxByKey", got, err, max)
			}); q != nil {
				fail("FindMaxByKey-panic", "FindMaxByKey(%v, a) panicked: %v", c.Maps, q)
			}
			nontrivial = len(have) >= 2
		case "RangeTyped":
			// Range/RangeRight over element types other than int/float64: the upper half of uint64,
			// narrow unsigned and signed types; c.S = [start, count, step] relative to a base per type
			rangeTyped[uint64](fail, uint64(1)<<63-uint64(c.S[0]), uint64(c.S[1]), uint64(c.S[2]))
			rangeTyped[uint64](fail, ^uint64(0)-40-uint64(c.S[0]), uint64(c.S[1]), uint64(c.S[2]))
			rangeTyped[uint32](fail, uint32(1)<<31-uint32(c.S[0]), uint32(c.S[1]), uint32(c.S[2]))
			rangeTyped[uint8](fail, uint8(200+c.S[0]), uint8(c.S[1]), uint8(c.S[2]))
			rangeTyped[int8](fail, int8(90+c.S[0]), int8(c.S[1]), int8(c.S[2]))
			rangeTyped[int64](fail, int64(1)<<53+int64(c.S[0]), int64(c.S[1]), int64(c.S[2]))
			nontrivial = c.S[1] >= 2
		case "RangeFine":
			// float progressions with steps finer than the two decimals the library keeps: every
			// element must lie within 0.005 of start + i*step, and there must be ceil((end-start)/step) of them
			start, step, n := c.Args[0], c.Args[1], int(c.Args[2])
			end := start + float64(n)*step - step/2
			for _, f32 := range []bool{false, true} {
				var got []float64
				var err error
				if f32 {
					g, e := gogu.Range(float32(start), float32(step), float32(end))
					err = e
					for _, x := range g {
						got = append(got, float64(x))
					}
				} else {
					got, err = gogu.Range(start, step, end)
				}
				if err != nil || len(got) != n {
					fail("RangeFine-length", "Range(%v,%v,%v) float32=%v = %v (err %v): want %d elements", start, step, end, f32, got, err, n)
					return
				}
				for i, x := range got {
					if d := x - (start + float64(i)*step); d > 0.00501 || d < -0.00501 {
						fail("RangeFine-drift", "Range(%v,%v,%v) float32=%v = %v: element %d is %v, the progression value is %v", start, step, end, f32, got, i, x, start+float64(i)*step)
						return
					}
				}
			}
			nontrivial = n >= 3
		case "NearFloats":
			// values that are != but closer than any sensible tolerance: equality is exact
			base := float64(c.V) / 8
			if c.V%3 == 0 {
				base = 0.1 * float64(c.V)
			}
			nb := math.Nextafter(base, math.Inf(1))
			nb2 := math.Nextafter(base, math.Inf(-1))
			if gogu.Equal(base, nb) || gogu.Equal(nb2, base) || !gogu.Equal(base, base) {
				fail("Equal-float", "Equal(%v, next float)=%v Equal(prev float, %v)=%v Equal(x,x)=%v", base, gogu.Equal(base, nb), base, gogu.Equal(nb2, base), gogu.Equal(base, base))
			}
			fs := []float64{nb2, 7, nb, base + 1e-10, base, nb}
			if got := gogu.IndexOf(fs, base); got != 4 {
				fail("IndexOf-float", "IndexOf(%v, %v)=%d want 4", fs, base, got)
			}
			if got := gogu.LastIndexOf(fs, nb); got != 5 {
				fail("LastIndexOf-float", "LastIndexOf(%v, %v)=%d want 5", fs, nb, got)
			}
			if gogu.Contains(fs[:4], base) || !gogu.Contains(fs, base) {
				fail("Contains-float", "Contains(%v, %v)=%v / Contains(%v, %v)=%v", fs[:4], base, gogu.Contains(fs[:4], base), fs, base, gogu.Contains(fs, base))
			}
			f32 := float32(base)
			n32 := math.Nextafter32(f32, float32(math.Inf(1)))
			if gogu.Equal(f32, n32) || gogu.IndexOf([]float32{n32, f32}, f32) != 1 {
				fail("Equal-float32", "Equal(%v, next float32)=%v", f32, gogu.Equal(f32, n32))
			}
			nontrivial = true
		case "AggTyped":
			// Sum/SumBy/Mean "in the element type": narrow and wide integer types, values beyond
			// 2^53, sums that wrap - the reference accumulates in the same type
			aggTyped[int8](fail, s, func(x int) int8 { return int8(x) })
			aggTyped[uint8](fail, s, func(x int) uint8 { return uint8(x) })
			aggTyped[int16](fail, s, func(x int) int16 { return int16(x * 257) })
			aggTyped[int32](fail, s, func(x int) int32 { return int32(x) << 20 })
			aggTyped[int64](fail, s, func(x int) int64 { return int64(x) + 1<<53 + 1 })
			aggTyped[int64](fail, s, func(x int) int64 { return int64(x)*1_000_000_007 + 1_700_000_000_000_000_000 })
			aggTyped[uint64](fail, s, func(x int) uint64 { return ^uint64(0) - uint64(x&0xff) })
			aggTyped[uint64](fail, s, func(x int) uint64 { return uint64(x&0xffff) + 1<<62 })
			aggTyped[float32](fail, s, func(x int) float32 { return float32(x) / 8 })
			nontrivial = len(s) >= 2
		case "Nth":
			got, err := gogu.Nth(s, c.V)
			n := len(s)
			switch {
			case c.V >= 0 && c.V < n:
				if err != nil || got != s[c.V] {
					fail("value", "Nth(%v,%d)=(%d,%v) want %d", s, c.V, got, err, s[c.V])
				}
			case c.V < 0 && c.V >= -n:
				if err != nil || got != s[n+c.V] {
					fail("value", "Nth(%v,%d)=(%d,%v) want %d", s, c.V, got, err, s[n+c.V])
				}
			default:
				if err == nil {
					fail("no-error", "Nth(%v,%d)=(%d,nil): out of range must be an error", s, c.V, got)
				}
			}
			nontrivial = true
		case "Int8":
			// complete enumeration of int8: Abs, and for num=c.V every lo<=hi: Clamp, InRange
			num := int8(c.V)
			if num != -128 {
				a := gogu.Abs(num)
				if a < 0 || (a != num && a != -num) {
					fail("Abs", "Abs(int8 %d)=%d", num, a)
				}
			}
			// InRange also over the empty intervals lo > hi (its defining inequality lo <= num <= hi has
			// no solution there); Clamp is only defined for lo <= hi
			for lo := -128; lo <= 127; lo++ {
				for hi := -128; hi < lo; hi++ {
					if gogu.InRange(num, int8(lo), int8(hi)) {
						fail("InRange-empty-interval", "InRange(int8 %d,%d,%d)=true although %d <= num <= %d has no solution", num, lo, hi, lo, hi)
						return
					}
				}
			}
			for lo := -128; lo <= 127; lo++ {
				for hi := lo; hi <= 127; hi++ {
					got := gogu.Clamp(num, int8(lo), int8(hi))
					want := num
					if int(num) < lo {
						want = int8(lo)
					} else if int(num) > hi {
						want = int8(hi)
					}
					if got != want {
						fail("Clamp", "Clamp(int8 %d,%d,%d)=%d want %d", num, lo, hi, got, want)
						return
					}
					if gotR := gogu.InRange(num, int8(lo), int8(hi)); gotR != (int(num) >= lo && int(num) <= hi) {
						fail("InRange", "InRange(int8 %d,%d,%d)=%v", num, lo, hi, gotR)
						return
					}
				}
			}
			f := float64(c.V) / 8
			if a := gogu.Abs(f); a < 0 || (a != f && a != -f) {
				fail("Abs-float", "Abs(%v)=%v", f, a)
			}
			nontrivial = true
		case "Compare":
			a, b := c.S[0], c.S[1]
			lt := func(x, y int) bool { return x < y }
			gt := func(x, y int) bool { return x > y }
			want := 0
			if a < b {
				want = 1
			} else if b < a {
				want = -1
			}
			if got := gogu.Compare(a, b, lt); got != want {
				fail("Compare", "Compare(%d,%d,<)=%d want %d", a, b, got, want)
			}
			if got := gogu.Compare(a, b, gt); got != -want {
				fail("Compare", "Compare(%d,%d,>)=%d want %d", a, b, got, -want)
			}
			// comparators whose equivalence is coarser than ==: the result must reflect the
			// comparator alone (0 exactly when neither argument precedes the other)
			for kn, key := range map[string]func(int) int{"abs": func(x int) int {
				if x < 0 {
					return -x
				}
				return x
			}, "half": func(x int) int { return (x + 8) / 2 }, "const": func(int) int { return 0 }} {
				kw := 0
				if key(a) < key(b) {
					kw = 1
				} else if key(b) < key(a) {
					kw = -1
				}
				if got := gogu.Compare(a, b, func(x, y int) bool { return key(x) < key(y) }); got != kw {
					fail("Compare-by-key", "Compare(%d,%d, by %s ascending)=%d want %d", a, b, kn, got, kw)
				}
				if got := gogu.Compare(a, b, func(x, y int) bool { return key(x) > key(y) }); got != -kw {
					fail("Compare-by-key", "Compare(%d,%d, by %s descending)=%d want %d", a, b, kn, got, -kw)
				}
			}
			type rec struct {
				K  int
				ID string
			}
			ra, rb := rec{a / 2, "x"}, rec{b / 2, fmt.Sprint("y", b)}
			rw := 0
			if ra.K < rb.K {
				rw = 1
			} else if rb.K < ra.K {
				rw = -1
			}
			if got := gogu.Compare(ra, rb, func(x, y rec) bool { return x.K < y.K }); got != rw {
				fail("Compare-by-key", "Compare(%+v,%+v, by field K)=%d want %d", ra, rb, got, rw)
			}
			if got := gogu.Less(a, b); got != (a < b) {
				fail("Less", "Less(%d,%d)=%v", a, b, got)
			}
			if got := gogu.Equal(a, b); got != (a == b) {
				fail("Equal", "Equal(%d,%d)=%v", a, b, got)
			}
			nontrivial = true
		case "Range":
			want, mustErr, mayErr := refRange(c.Args)
			rev := make([]float64, len(want))
			for i, x := range want {
				rev[len(want)-1-i] = x
			}
			if c.T == "float" {
				// the spread argument list carries spare capacity in two of three cases
				fa := make([]float64, len(c.Args), len(c.Args)+2*sp)
				copy(fa, c.Args)
				for i, rest := 0, fa[len(fa):cap(fa)]; i < len(rest); i++ {
					rest[i] = float64(3 + i)
				}
				got, err := gogu.Range(fa...)
				gotR, errR := gogu.RangeRight(fa...)
				judge(fail, c, got, err, want, mustErr, mayErr, "Range")
				judge(fail, c, gotR, errR, rev, mustErr, mayErr, "RangeRight")
			} else {
				ia := make([]int, len(c.Args), len(c.Args)+2*sp)
				for i, rest := 0, ia[len(ia):cap(ia)]; i < len(rest); i++ {
					rest[i] = 3 + i
				}
				for i, a := range c.Args {
					ia[i] = int(a)
				}
				toF := func(s []int) []float64 {
					if s == nil {
						return nil
					}
					o := make([]float64, len(s))
					for i, x := range s {
						o[i] = float64(x)
					}
					return o
				}
				got, err := gogu.Range(ia...)
				gotR, errR := gogu.RangeRight(ia...)
				judge(fail, c, toF(got), err, want, mustErr, mayErr, "Range")
				judge(fail, c, toF(gotR), errR, rev, mustErr, mayErr, "RangeRight")
			}
			nontrivial = len(want) >= 2
		default:
			panic("unknown fn " + c.Fn)
		}
	})
	if p != nil {
		fail("panic", "%s on %s panicked: %v", c.Fn, core.JSON(c), p)
		return
	}
	w.Count("calls:"+c.Fn, 1)
	if nontrivial {
		w.NonTrivial(core.HashString(core.JSON(c)))
	}
	if w.WantSample() && nontrivial && (len(c.S) >= 3 || len(c.Args) == 3 || len(c.Maps) >= 2) {
		w.Sample(c)
	}
}

func judge(fail func(string, string, ...any), c Case, got []float64, err error, want []float64, mustErr, mayErr bool, name string) {
	switch {
	case mustErr:
		if err == nil {
			fail(name+"-invalid-accepted", "%s(%v) = (%v, nil): invalid arguments must yield an error", name, c.Args, got)
		}
	case err != nil:
		if !mayErr {
			fail(name+"-error", "%s(%v) returned the error %q where the progression %v is due", name, c.Args, err, want)
		}
	default:
		if !eqF(append([]float64{}, got...), want) {
			fail(name+"-result", "%s(%v) = %v want %v", name, c.Args, got, want)
		}
	}
}

func allSlices(vals []int, maxLen int) [][]int {
	out := [][]int{{}}
	seq.Enum(vals, maxLen, func(s []int) { out = append(out, s) })
	return out
}



// rangeTyped checks Range/RangeRight over T for the ascending progression start, start+step, ...
// (count elements), in the 3-, 2- (step 1) and - for start 0 - 1-argument forms.
func rangeTyped[T gogu.Number](fail func(sig, format string, a ...any), start, count, step T) {
	if step == 0 || count == 0 {
		return
	}
	var want []T
	x := start
	for i := T(0); i < count; i++ {
		want = append(want, x)
		x += step
	}
	end := want[len(want)-1] + 1 // the progression stops before reaching end
	if end <= start {
		return // wrapped around: outside the domain
	}
	got, err := gogu.Range(start, step, end)
	if err != nil || !reflect.DeepEqual(got, want) {
		fail("Range-typed", "Range[%T](%v,%v,%v) = (%v, %v) want %v", start, start, step, end, got, err, want)
		return
	}
	rev, err := gogu.RangeRight(start, step, end)
	if err != nil || len(rev) != len(want) {
		fail("RangeRight-typed", "RangeRight[%T](%v,%v,%v) = (%v, %v) want the reverse of %v", start, start, step, end, rev, err, want)
		return
	}
	for i := range want {
		if rev[i] != want[len(want)-1-i] {
			fail("RangeRight-typed", "RangeRight[%T](%v,%v,%v) = %v want the reverse of %v", start, start, step, end, rev, want)
			return
		}
	}
	if step == 1 {
		if got, err := gogu.Range(start, end); err != nil || !reflect.DeepEqual(got, want) {
			fail("Range-typed", "Range[%T](%v,%v) = (%v, %v) want %v", start, start, end, got, err, want)
		}
	}
}

// aggTyped checks Sum, SumBy and Mean of conv(s) against accumulation in the element type T.
func aggTyped[T gogu.Number](fail func(sig, format string, a ...any), s []int, conv func(int) T) {
	ts := make([]T, len(s))
	var sum, sum2 T
	for i, x := range s {
		ts[i] = conv(x)
		sum += ts[i]
		sum2 += ts[i] + ts[i]
	}
	if got := gogu.Sum(ts); got != sum {
		fail("Sum-typed", "Sum(%T %v)=%v want %v", sum, ts, got, sum)
	}
	if got := gogu.SumBy(ts, func(v T) T { return v + v }); got != sum2 {
		fail("SumBy-typed", "SumBy(%T %v, 2v)=%v want %v", sum, ts, got, sum2)
	}
	// Mean divides by the length converted to T: a length that T cannot represent (256 elements of
	// a uint8, 128 of an int8, ...) is outside the domain - the quotient is not defined there.
	if n := T(len(ts)); len(ts) > 0 && n > 0 && float64(n) == float64(len(ts)) {
		if got, want := gogu.Mean(ts), sum/T(len(ts)); got != want {
			fail("Mean-typed", "Mean(%T %v)=%v want %v (sum %v in the element type / %d)", sum, ts, got, want, sum, len(ts))
		}
	}
}

func TestProp(t *testing.T) {
	r := core.Start(t, "C13")
	defer r.Finish()
	r.Rule("cases = one call group of a search/selection/aggregate/numeric helper checked against its definition: IndexOf/LastIndexOf/Contains, FindIndex/FindLastIndex/FindAll/Some/Every (4 predicates), FindMin/FindMax/Min/Max/Sum/SumBy/Mean (int and float64), FindMinBy/FindMaxBy (first extremal element, 4 key functions with ties), FindMinByKey/FindMaxByKey over map slices with/without the key, Nth over an index window and at the extreme int values, Sum/SumBy/Mean also on int8/uint8/int16/int32/int64 (beyond 2^53)/uint64 (near the maximum)/float32 against accumulation in the element type, Abs/Clamp/InRange on all of int8, Compare (plain and by-key comparators with ties between unequal values, struct elements)/Less/Equal, Range/RangeRight against the reference progression, also over uint64 (upper half, near the maximum)/uint32/uint8/int8/int64 and for float steps finer than two decimals (every element within 0.005 of start+i*step), Equal/IndexOf/LastIndexOf/Contains on floats that differ by one ulp; non-trivial = input of >= 2 elements resp. a proper match/progression; distinct by hash of the case")

	L := r.Pick(5, 6)
	core.Monitor(r, "def-sweep", 0, func(emit func(Case)) {
		ss := allSlices([]int{0, 1, 2}, L)
		for _, s := range ss {
			for v := -1; v <= 3; v++ {
				emit(Case{Fn: "IndexOf", S: s, V: v})
			}
			for _, p := range []string{"true", "false"} {
				emit(Case{Fn: "FindIndex", S: s, Key: p})
			}
			for v := 0; v <= 2; v++ {
				emit(Case{Fn: "FindIndex", S: s, Key: "eq", V: v})
				emit(Case{Fn: "FindIndex", S: s, Key: "gt", V: v})
			}
			emit(Case{Fn: "MinMax", S: s})
			for _, k := range keyFns {
				emit(Case{Fn: "MinMaxBy", S: s, Key: k})
			}
			for i := -(len(s) + 2); i <= len(s)+2; i++ {
				emit(Case{Fn: "Nth", S: s, V: i})
			}
			if len(s) <= 3 {
				// extreme indices: the negation of the smallest int is not representable
				for _, i := range []int{math.MinInt, math.MinInt + 1, math.MaxInt, math.MaxInt - 1, -1 << 31, 1 << 31, -1<<32 - 1, 1 << 32} {
					emit(Case{Fn: "Nth", S: s, V: i})
				}
				emit(Case{Fn: "AggTyped", S: s})
			}
		}
		for off := 0; off <= 6; off++ {
			for count := 1; count <= 9; count++ {
				for step := 1; step <= 3; step++ {
					emit(Case{Fn: "RangeTyped", S: []int{off, count, step}})
				}
			}
		}
		for _, st := range []float64{0, 0.5, -1.25, 3} {
			for _, step := range []float64{0.125, 0.375, 0.0625, 0.03125, 0.625} {
				for n := 1; n <= 24; n++ {
					if st+float64(n)*step-step/2 > 0 { // ascending only for end > 0 (the property's rule)
						emit(Case{Fn: "RangeFine", Args: []float64{st, step, float64(n)}})
					}
				}
			}
		}
		for v := -12; v <= 40; v++ {
			emit(Case{Fn: "NearFloats", V: v})
		}
		r.Exhaustive(fmt.Sprintf("IndexOf/LastIndexOf/Contains(probes -1..3), FindIndex/FindLastIndex/FindAll/Some/Every(8 predicates), FindMin/FindMax/Min/Max/Sum/SumBy/Mean, FindMinBy/FindMaxBy(4 key fns), Nth(indices -(len+2)..len+2) on all slices of length<=%d over {0,1,2}", L), int64(len(ss)))
		// negative / wider values for the extremum functions
		ws := allSlices([]int{-2, 0, 3}, r.Pick(4, 5))
		for _, s := range ws {
			emit(Case{Fn: "MinMax", S: s})
			for _, k := range keyFns {
				emit(Case{Fn: "MinMaxBy", S: s, Key: k})
			}
		}
		for v := -128; v <= 127; v++ {
			emit(Case{Fn: "Int8", V: v})
		}
		r.Exhaustive("Abs on all int8 but -128; Clamp on ALL int8 triples (num, lo<=hi); InRange on ALL int8 triples incl. the empty intervals lo>hi", 256*256*256)
		for a := -3; a <= 3; a++ {
			for b := -3; b <= 3; b++ {
				emit(Case{Fn: "Compare", S: []int{a, b}})
			}
		}
		// map slices: each map has a=0..2 or lacks the key (and may carry an unrelated key)
		opts := []map[string]int{{"b": 9}, {"a": 0}, {"a": 1, "b": 0}, {"a": 2}}
		var nm int64
		emit(Case{Fn: "ByKey", Maps: []map[string]int{}})
		seq.Enum([]int{0, 1, 2, 3}, r.Pick(5, 6), func(ix []int) {
			ms := make([]map[string]int, len(ix))
			for i, j := range ix {
				ms[i] = opts[j]
			}
			emit(Case{Fn: "ByKey", Maps: ms})
			nm++
		})
		r.Exhaustive("FindMinByKey/FindMaxByKey on all map slices of length<=5 over {no key, a=0, a=1, a=2}", nm)
		// Range: all 1-, 2- and 3-argument forms in [-10,10]
		var nr int64
		W := r.Pick(10, 14)
		for a := -W; a <= W; a++ {
			emit(Case{Fn: "Range", Args: []float64{float64(a)}})
			nr++
			for b := -W; b <= W; b++ {
				emit(Case{Fn: "Range", Args: []float64{float64(a), float64(b)}})
				nr++
				for c := -W; c <= W; c++ {
					emit(Case{Fn: "Range", Args: []float64{float64(a), float64(b), float64(c)}})
					nr++
				}
			}
		}
		emit(Case{Fn: "Range", Args: []float64{0, 1, 2, 3}})
		emit(Case{Fn: "Range", Args: []float64{1, 1, 1, 1, 1}})
		r.Exhaustive(fmt.Sprintf("Range/RangeRight on all (start), (start,end), (start,step,end) in [-%d,%d] (ints) plus the >3-argument form", W, W), nr)
		// float: quarter steps
		for a := -4; a <= 4; a++ {
			for b := -4; b <= 4; b++ {
				for c := -6; c <= 6; c++ {
					emit(Case{Fn: "Range", T: "float", Args: []float64{float64(a) / 2, float64(b) / 4, float64(c) / 2}})
				}
			}
		}
	}, run)

	nRand := r.Pick(20000, 1000000)
	core.Monitor(r, "def-random", 0, func(emit func(Case)) {
		rng := r.Rand("c13-random")
		for i := 0; i < nRand; i++ {
			n := rng.Intn(30)
			if i%40 == 39 { // long slices
				n = rng.Range(200, 3000)
			}
			s := make([]int, n)
			rv := []int{3, 10, 1000}[rng.Intn(3)]
			for j := range s {
				s[j] = rng.Intn(2*rv) - rv
			}
			switch rng.Intn(7) {
			case 0:
				emit(Case{Fn: "IndexOf", S: s, V: rng.Intn(2*rv) - rv})
			case 1:
				emit(Case{Fn: "FindIndex", S: s, Key: []string{"eq", "gt", "true", "false"}[rng.Intn(4)], V: rng.Intn(2*rv) - rv})
			case 2:
				emit(Case{Fn: "MinMax", S: s})
			case 3:
				emit(Case{Fn: "MinMaxBy", S: s, Key: keyFns[rng.Intn(4)]})
			case 4:
				emit(Case{Fn: "Nth", S: s, V: rng.Range(-n-3, n+3)})
				emit(Case{Fn: "AggTyped", S: s})
			case 5:
				var ms []map[string]int
				for k := rng.Intn(8); k > 0; k-- {
					m := map[string]int{}
					if rng.Chance(4, 5) {
						m["a"] = rng.Intn(2*rv) - rv
					}
					if rng.Bool() {
						m["b"] = rng.Intn(5)
					}
					ms = append(ms, m)
				}
				if ms == nil {
					ms = []map[string]int{}
				}
				emit(Case{Fn: "ByKey", Maps: ms})
			default:
				emit(Case{Fn: "Range", Args: []float64{float64(rng.Range(-40, 40)), float64(rng.Range(-7, 7)), float64(rng.Range(-40, 40))}})
				if i%10 == 0 { // long progressions
					emit(Case{Fn: "Range", Args: []float64{float64(rng.Range(-3000, 3000)), float64(rng.Range(-90, 90)), float64(rng.Range(-3000, 3000))}})
					emit(Case{Fn: "Range", Args: []float64{float64(rng.Range(-3000, 3000)), float64(rng.Range(-3000, 3000))}})
					emit(Case{Fn: "Range", Args: []float64{float64(rng.Range(-3000, 3000))}})
				}
			}
		}
	}, run)
}
