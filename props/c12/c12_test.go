// C12 — reshaping helpers conserve elements and order (DESIGN §4 C12).
// Oracle: reference implementations / defining identities + logging callbacks.
// Elements are structs {V, ID} with ID = original index, so every element is
// distinguishable: "each element exactly once, in order" is checked exactly.
package c12

import (
	"math"
	"fmt"
	"reflect"
	"testing"
	"unicode/utf8"

	"github.com/esimov/gogu"

	"verif/internal/core"
	"verif/internal/seq"
)

type P struct {
	V  int `json:"v"`
	ID int `json:"id"`
}

type Nest struct {
	Leaf *int   `json:"leaf,omitempty"`
	Ints []int  `json:"ints,omitempty"`
	IsT  bool   `json:"is_ts,omitempty"`
	Kids []Nest `json:"kids,omitempty"`
	IsK  bool   `json:"is_anys,omitempty"`
}

type Case struct {
	Fn   string  `json:"fn"`
	S    []int   `json:"s,omitempty"`
	N    int     `json:"n,omitempty"`
	Pred string  `json:"pred,omitempty"`
	M    [][]int `json:"m,omitempty"`
	More [][]int `json:"more,omitempty"`
	Nest *Nest   `json:"nest,omitempty"`
	Str  string  `json:"str_hex,omitempty"`
}

func pred(name string) func(P) bool {
	switch name {
	case "true":
		return func(P) bool { return true }
	case "eq0":
		return func(p P) bool { return p.V == 0 }
	case "eq1":
		return func(p P) bool { return p.V == 1 }
	case "even":
		return func(p P) bool { return p.V%2 == 0 }
	case "ne2":
		return func(p P) bool { return p.V != 2 }
	}
	return func(P) bool { return false }
}

var preds = []string{"false", "true", "eq0", "eq1", "even", "ne2"}

// mk builds a slice of distinguishable elements; with spare > 0 it gets SPARE CAPACITY (slots
// behind its length holding values that are not part of the input): a helper that looks at cap()
// instead of len(), or reads past the end, shows up as foreign elements in its result.
func mk(s []int) []P { return mkSpare(s, 0) }

func mkSpare(s []int, spare int) []P {
	arr := make([]P, len(s)+spare)
	for i, v := range s {
		arr[i] = P{v, i}
	}
	for i := len(s); i < len(arr); i++ {
		arr[i] = P{-77, -1 - i}
	}
	return arr[:len(s)]
}

func eqP(a, b []P) bool {
	if len(a) != len(b) {
		return false
	}
	for i := range a {
		if a[i] != b[i] {
			return false
		}
	}
	return true
}

func flat(n *Nest) []int {
	switch {
	case n.Leaf != nil:
		return []int{*n.Leaf}
	case n.IsT:
		return append([]int{}, n.Ints...)
	case n.IsK:
		out := []int{}
		for i := range n.Kids {
			out = append(out, flat(&n.Kids[i])...)
		}
		return out
	}
	return nil
}

// buildShared is build, except that equal non-empty sub-nestings are built ONCE and the same
// []any / []int object is placed at every position where they occur (the way a caller who reuses
// a row variable builds its argument).
func buildShared(n *Nest, memo map[string]any) any {
	if n.Leaf != nil {
		return *n.Leaf
	}
	key := core.JSON(n)
	if v, ok := memo[key]; ok {
		return v
	}
	var out any
	if n.IsT {
		out = append([]int{}, n.Ints...)
		if len(n.Ints) == 0 {
			return out
		}
	} else {
		o := make([]any, 0, len(n.Kids))
		for i := range n.Kids {
			o = append(o, buildShared(&n.Kids[i], memo))
		}
		if len(o) == 0 {
			return o
		}
		out = o
	}
	memo[key] = out
	return out
}

func build(n *Nest) any {
	switch {
	case n.Leaf != nil:
		return *n.Leaf
	case n.IsT:
		return append([]int{}, n.Ints...)
	default:
		out := make([]any, 0, len(n.Kids))
		for i := range n.Kids {
			out = append(out, build(&n.Kids[i]))
		}
		return out
	}
}

func unhx(h string) string {
	var b []byte
	fmt.Sscanf(h, "%x", &b)
	return string(b)
}

func run(w *core.Worker, c Case) {
	fail := func(sig, format string, a ...any) { w.Violation("c12."+c.Fn+"."+sig, fmt.Sprintf(format, a...)) }
	// the argument has spare capacity in every second case (decided by the case, not by chance)
	s := mkSpare(c.S, int(core.HashString(core.JSON(c))%2)*3)
	orig := mk(c.S)
	pr := pred(c.Pred)
	nontrivial := len(c.S) >= 2
	expectPanic := false

	p := core.Catch(func() {
		switch c.Fn {
		case "Chunk":
			if c.N <= 0 {
				expectPanic = true
			}
			got := gogu.Chunk(s, c.N)
			var cat []P
			for i, ch := range got {
				if len(ch) == 0 {
					fail("empty-chunk", "Chunk(len %d, %d): chunk %d is empty: %v", len(s), c.N, i, got)
					return
				}
				if i < len(got)-1 && len(ch) != c.N || len(ch) > c.N {
					fail("chunk-length", "Chunk(len %d, %d): chunk %d has length %d: %v", len(s), c.N, i, len(ch), got)
					return
				}
				cat = append(cat, ch...)
			}
			if !eqP(cat, orig) {
				fail("concat", "Chunk(%v, %d) = %v does not concatenate back to the input", orig, c.N, got)
			}
		case "Partition":
			got := gogu.Partition(s, pr)
			var yes, no []P
			for _, e := range orig {
				if pr(e) {
					yes = append(yes, e)
				} else {
					no = append(no, e)
				}
			}
			if !eqP(got[0], yes) || !eqP(got[1], no) {
				fail("result", "Partition(%v, %s) = %v want [%v %v]", orig, c.Pred, got, yes, no)
			}
		case "Filter", "Reject", "DropWhile", "DropRightWhile":
			var want []P
			for _, e := range orig {
				if pr(e) == (c.Fn == "Filter") {
					want = append(want, e)
				}
			}
			var got []P
			switch c.Fn {
			case "Filter":
				got = gogu.Filter(s, pr)
			case "Reject":
				got = gogu.Reject(s, pr)
			case "DropWhile":
				got = gogu.DropWhile(s, pr)
			case "DropRightWhile":
				got = gogu.DropRightWhile(s, pr)
				for i, j := 0, len(want)-1; i < j; i, j = i+1, j-1 {
					want[i], want[j] = want[j], want[i]
				}
			}
			if !eqP(got, want) {
				fail("result", "%s(%v, %s) = %v want %v", c.Fn, orig, c.Pred, got, want)
				return
			}
			if c.Fn == "Filter" {
				// Filter and Reject of the SAME slice split it: every element in exactly one of them
				var rest []P
				for _, e := range orig {
					if !pr(e) {
						rest = append(rest, e)
					}
				}
				if rej := gogu.Reject(s, pr); !eqP(rej, rest) {
					fail("filter-then-reject", "Filter(%v, %s) = %v, then Reject of the same slice = %v want %v", orig, c.Pred, got, rej, rest)
				}
			}
		case "GroupBy":
			key := func(e P) int { return e.V % c.N }
			got := gogu.GroupBy(s, key)
			want := map[int][]P{}
			for _, e := range orig {
				want[key(e)] = append(want[key(e)], e)
			}
			if len(got) != len(want) {
				fail("groups", "GroupBy(%v, v%%%d) = %v want %v", orig, c.N, got, want)
				return
			}
			for k, g := range want {
				if !eqP(got[k], g) {
					fail("group-content", "GroupBy(%v, v%%%d)[%d] = %v want %v", orig, c.N, k, got[k], g)
					return
				}
			}
		case "Zip", "Unzip":
			n := len(c.M)
			// two of three cases: the spread row list and every row carry spare capacity (extra row /
			// extra elements behind the length) - cap-for-len slips and reslicing become visible
			sp := int(core.HashString(core.JSON(c)) % 3)
			rows := make([][]P, n, n+sp)
			for i := range c.M {
				rows[i] = make([]P, len(c.M[i]), len(c.M[i])+sp)
				for j, v := range c.M[i] {
					rows[i][j] = P{v, i*n + j}
				}
				for j, rest := 0, rows[i][len(rows[i]):cap(rows[i])]; j < len(rest); j++ {
					rest[j] = P{-77, -1 - j}
				}
			}
			for j, rest := 0, rows[n:cap(rows)]; j < len(rest); j++ {
				rest[j] = []P{{-78, -1 - j}}
			}
			tr := func(m [][]P) [][]P {
				out := make([][]P, len(m))
				for i := range m {
					out[i] = make([]P, len(m))
					for j := range m {
						out[i][j] = m[j][i]
					}
				}
				return out
			}
			f, g := gogu.Zip[P], gogu.Unzip[P]
			if c.Fn == "Unzip" {
				f, g = g, f
			}
			got := f(rows...)
			if !reflect.DeepEqual(got, tr(rows)) && !(n == 0 && len(got) == 0) {
				fail("not-transpose", "%s(%v) = %v want the transpose %v", c.Fn, rows, got, tr(rows))
				return
			}
			back := g(got...)
			if !reflect.DeepEqual(back, rows) && !(n == 0 && len(back) == 0) {
				fail("not-inverse", "undoing %s(%v) gave %v", c.Fn, rows, back)
			}
			nontrivial = n >= 2
		case "Flatten":
			got, err := gogu.Flatten[int](build(c.Nest))
			want := flat(c.Nest)
			if err != nil || !reflect.DeepEqual(append([]int{}, got...), append([]int{}, want...)) {
				fail("result", "Flatten(%s) = (%v, %v) want %v", core.JSON(c.Nest), got, err, want)
				return
			}
			// the same nesting with equal sub-nestings being one shared object
			got, err = gogu.Flatten[int](buildShared(c.Nest, map[string]any{}))
			if err != nil || !reflect.DeepEqual(append([]int{}, got...), append([]int{}, want...)) {
				fail("result-shared-sublists", "Flatten(%s) with equal sub-slices shared = (%v, %v) want %v", core.JSON(c.Nest), got, err, want)
			}
			nontrivial = len(want) >= 2
		case "Merge":
			var more [][]P
			want := append([]P{}, orig...)
			base := len(orig)
			for _, m := range c.More {
				ps := make([]P, len(m))
				for j, v := range m {
					ps[j] = P{v, base + j}
				}
				base += len(m)
				more = append(more, ps)
				want = append(want, ps...)
			}
			got := gogu.Merge(s, more...)
			if !eqP(got, want) {
				fail("result", "Merge(%v, %v) = %v want %v", orig, more, got, want)
			}
			nontrivial = len(want) >= 2
		case "MergeAlias":
			// the arguments are windows [lo,hi) of ONE backing array of c.N distinct elements (each
			// window keeps the array's remaining capacity, like items[:2]): the result must be the
			// concatenation of what the windows held when the call was made
			arr := make([]P, c.N)
			for j := range arr {
				arr[j] = P{j % 3, j}
			}
			var args [][]P
			var want []P
			for _, wd := range c.M {
				args = append(args, arr[wd[0]:wd[1]])
				want = append(want, append([]P{}, arr[wd[0]:wd[1]]...)...)
			}
			got := gogu.Merge(args[0], args[1:]...)
			if !eqP(got, want) {
				fail("result-aliased-arguments", "Merge of the windows %v of one %d-element array = %v want %v", c.M, c.N, got, want)
			}
			nontrivial = len(want) >= 2
		case "Drop":
			got := gogu.Drop(s, c.N)
			k := c.N
			if k < 0 {
				k = -k
			}
			if k > len(orig) || k < 0 { // k < 0: |math.MinInt| is not representable, it exceeds every length
				k = len(orig)
			}
			var want []P
			if c.N >= 0 {
				want = orig[k:]
			} else {
				want = orig[:len(orig)-k]
			}
			if !eqP(got, want) {
				fail("result", "Drop(%v, %d) = %v want %v", orig, c.N, got, want)
			}
		case "Reverse":
			got := gogu.Reverse(s)
			for i := range orig {
				if len(got) != len(orig) || got[i] != orig[len(orig)-1-i] {
					fail("result", "Reverse(%v) = %v", orig, got)
					return
				}
			}
			if len(got) != len(orig) {
				fail("result", "Reverse(%v) = %v", orig, got)
				return
			}
			if back := gogu.Reverse(got); !eqP(back, orig) {
				fail("not-involution", "Reverse(Reverse(%v)) = %v", orig, back)
			}
		case "ReverseStr":
			str := unhx(c.Str)
			got := gogu.ReverseStr(str)
			rs := []rune(str)
			want := make([]rune, len(rs))
			for i, r := range rs {
				want[len(rs)-1-i] = r
			}
			if got != string(want) {
				fail("result", "ReverseStr(%q) = %q want %q", str, got, string(want))
				return
			}
			if utf8.ValidString(str) {
				if back := gogu.ReverseStr(got); back != str {
					fail("not-involution", "ReverseStr(ReverseStr(%q)) = %q", str, back)
				}
			}
			nontrivial = len(rs) >= 2
		case "Shuffle":
			got := gogu.Shuffle(s)
			if len(got) != len(orig) {
				fail("length", "Shuffle(%v) = %v", orig, got)
				return
			}
			seen := map[P]int{}
			for _, e := range got {
				seen[e]++
			}
			for _, e := range orig {
				if seen[e] != 1 {
					fail("not-permutation", "Shuffle(%v) = %v", orig, got)
					return
				}
			}
		case "Map", "ForEach", "ForEachRight", "Reduce":
			var log []P
			switch c.Fn {
			case "Map":
				got := gogu.Map(s, func(e P) int { log = append(log, e); return e.V*10 + e.ID })
				for i, e := range orig {
					if len(got) != len(orig) || got[i] != e.V*10+e.ID {
						fail("result", "Map(%v) = %v", orig, got)
						return
					}
				}
				if len(got) != len(orig) {
					fail("result", "Map(%v) = %v", orig, got)
					return
				}
			case "ForEach":
				gogu.ForEach(s, func(e P) { log = append(log, e) })
			case "ForEachRight":
				gogu.ForEachRight(s, func(e P) { log = append(log, e) })
				for i, j := 0, len(log)-1; i < j; i, j = i+1, j-1 {
					log[i], log[j] = log[j], log[i]
				}
				// order is checked below after un-reversing; a forward visit would now look reversed
			case "Reduce":
				got := gogu.Reduce(s, func(e P, acc string) string { log = append(log, e); return acc + fmt.Sprintf("(%d,%d)", e.V, e.ID) }, "init:")
				want := "init:"
				for _, e := range orig {
					want += fmt.Sprintf("(%d,%d)", e.V, e.ID)
				}
				if got != want {
					fail("result", "Reduce(%v) = %q want %q", orig, got, want)
					return
				}
			}
			if !eqP(log, orig) {
				fail("visit-order", "%s(%v): callback saw %v (after un-reversing for ForEachRight)", c.Fn, orig, log)
				return
			}
			// the same slice visited again - by the same helper and by a plain forward walk - must
			// show the same sequence (a visitor has no business rearranging what it walks over)
			var again, fwd []P
			switch c.Fn {
			case "Map":
				gogu.Map(s, func(e P) int { again = append(again, e); return 0 })
			case "ForEach":
				gogu.ForEach(s, func(e P) { again = append(again, e) })
			case "ForEachRight":
				gogu.ForEachRight(s, func(e P) { again = append(again, e) })
				for i, j := 0, len(again)-1; i < j; i, j = i+1, j-1 {
					again[i], again[j] = again[j], again[i]
				}
			case "Reduce":
				gogu.Reduce(s, func(e P, acc int) int { again = append(again, e); return acc }, 0)
			}
			gogu.ForEach(s, func(e P) { fwd = append(fwd, e) })
			if !eqP(again, orig) || !eqP(fwd, orig) {
				fail("visit-order-second-walk", "%s(%v): a second walk over the same slice saw %v, a following ForEach %v", c.Fn, orig, again, fwd)
			}
		default:
			panic("unknown fn " + c.Fn)
		}
	})
	if p != nil && !expectPanic {
		fail("panic", "%s on %s panicked: %v", c.Fn, core.JSON(c), p)
		return
	}
	w.Count("calls:"+c.Fn, 1)
	if nontrivial {
		w.NonTrivial(core.HashString(core.JSON(c)))
	}
	if w.WantSample() && nontrivial && len(c.S)+len(c.M) >= 3 {
		w.Sample(c)
	}
}

func allSlices(vals []int, maxLen int) [][]int {
	out := [][]int{{}}
	seq.Enum(vals, maxLen, func(s []int) { out = append(out, s) })
	return out
}

func leaf(v int) Nest { return Nest{Leaf: &v} }

func nestings(depth int) []Nest {
	base := []Nest{leaf(0), leaf(1), {IsT: true, Ints: []int{}}, {IsT: true, Ints: []int{0}}, {IsT: true, Ints: []int{1, 0}}}
	if depth == 0 {
		return base
	}
	sub := nestings(depth - 1)
	if len(sub) > 36 {
		s2 := sub[:0:0]
		for i, s := range sub {
			if i < 12 || i%5 == 0 {
				s2 = append(s2, s)
			}
		}
		sub = s2
	}
	out := append([]Nest{}, base...)
	out = append(out, Nest{IsK: true, Kids: []Nest{}})
	for _, a := range sub {
		out = append(out, Nest{IsK: true, Kids: []Nest{a}})
		for _, b := range sub {
			out = append(out, Nest{IsK: true, Kids: []Nest{a, b}})
		}
	}
	return out
}


// FuzzReshape (thorough tier): coverage-guided fuzzing of the reshaping helpers on one slice
// argument (values = bytes mod 4), a signed count and a predicate; same run oracle.
func FuzzReshape(f *testing.F) {
	f.Add(uint8(0), uint8(1), int16(3), []byte{1, 2, 3, 0, 1, 2, 3})
	f.Add(uint8(1), uint8(4), int16(-2), []byte{0, 0, 1})
	f.Fuzz(func(t *testing.T, fi, pi uint8, n int16, data []byte) {
		if len(data) > 3000 {
			data = data[:3000]
		}
		fns := []string{"Chunk", "Drop", "Partition", "Filter", "Reject", "DropWhile", "DropRightWhile", "GroupBy", "Reverse", "Shuffle", "Map", "ForEach", "ForEachRight", "Reduce", "Merge"}
		c := Case{Fn: fns[int(fi)%len(fns)], Pred: preds[int(pi)%len(preds)], N: int(n)}
		c.S = make([]int, len(data))
		for i, b := range data {
			c.S[i] = int(b) % 4
		}
		switch c.Fn {
		case "Chunk":
			if c.N <= 0 {
				c.N = 1 - c.N
			}
		case "GroupBy":
			c.N = (c.N%4+4)%4 + 1
		case "Merge":
			k := len(c.S) / 3
			c.More = [][]int{c.S[k : 2*k], c.S[2*k:]}
			c.S = c.S[:k]
		}
		w := core.Probe(func(sig, detail string) { t.Fatalf("VERIF-SIG %s\nVERIF-CASE %s\n%s", sig, core.JSON(c), detail) })
		run(w, c)
	})
}

func TestProp(t *testing.T) {
	r := core.Start(t, "C12")
	defer r.Finish()
	r.Rule("cases = one call of a reshaping helper on a slice of distinguishable elements {value, original index}: Chunk (concatenation + chunk lengths), Partition/Filter/Reject/DropWhile/DropRightWhile/GroupBy (exact parts in order), Zip/Unzip (transpose and mutual inverse), Flatten (leaves left to right), Merge (concatenation, also when the arguments are overlapping windows of one backing array), Drop (min(|n|,len) from the correct end), Reverse/ReverseStr (reversal + involution), Shuffle (permutation), Map/ForEach/ForEachRight/Reduce (callback log = each index once in order); in every second case the argument slice has spare capacity holding foreign values; non-trivial = input of >= 2 elements; distinct by hash of the case")

	L := r.Pick(7, 9)
	core.Monitor(r, "reshape-sweep", 0, func(emit func(Case)) {
		ss := allSlices([]int{0, 1, 2}, L)
		for _, s := range ss {
			for n := 1; n <= 8; n++ {
				emit(Case{Fn: "Chunk", S: s, N: n})
			}
			for n := -9; n <= 9; n++ {
				emit(Case{Fn: "Drop", S: s, N: n})
			}
			if len(s) <= 6 { // sizes and counts at the edge of the int range
				for _, n := range []int{math.MaxInt, math.MaxInt - 1, math.MaxInt - 5, 1 << 62, 1 << 32} {
					emit(Case{Fn: "Chunk", S: s, N: n})
					emit(Case{Fn: "Drop", S: s, N: n})
					emit(Case{Fn: "Drop", S: s, N: -n})
				}
				emit(Case{Fn: "Drop", S: s, N: math.MinInt})
			}
			for _, p := range preds {
				for _, fn := range []string{"Partition", "Filter", "Reject", "DropWhile", "DropRightWhile"} {
					emit(Case{Fn: fn, S: s, Pred: p})
				}
			}
			for n := 1; n <= 3; n++ {
				emit(Case{Fn: "GroupBy", S: s, N: n})
			}
			for _, fn := range []string{"Reverse", "Shuffle", "Map", "ForEach", "ForEachRight", "Reduce"} {
				emit(Case{Fn: fn, S: s})
			}
		}
		r.Exhaustive(fmt.Sprintf("Chunk(sizes 1..8)/Drop(-9..9)/Partition,Filter,Reject,DropWhile,DropRightWhile(6 predicates)/GroupBy(3 keys)/Reverse/Shuffle/Map/ForEach/ForEachRight/Reduce on all slices of length<=%d over {0,1,2}", L), int64(len(ss)))
		small := allSlices([]int{0, 1}, 3)
		for _, a := range small {
			emit(Case{Fn: "Merge", S: a})
			for _, b := range small {
				emit(Case{Fn: "Merge", S: a, More: [][]int{b}})
				for _, c := range small[:7] {
					emit(Case{Fn: "Merge", S: a, More: [][]int{b, c}})
				}
			}
		}
		// Merge on overlapping / adjacent windows of one backing array
		var wins [][]int
		for lo := 0; lo <= 5; lo++ {
			for hi := lo; hi <= 5; hi++ {
				wins = append(wins, []int{lo, hi})
			}
		}
		var nAl int64
		for _, a := range wins {
			for _, b := range wins {
				emit(Case{Fn: "MergeAlias", N: 5, M: [][]int{a, b}})
				nAl++
				for _, c := range wins {
					if c[1]-c[0] >= 1 && c[1]-c[0] <= 2 {
						emit(Case{Fn: "MergeAlias", N: 5, M: [][]int{a, b, c}})
						nAl++
					}
				}
			}
		}
		r.Exhaustive("Merge on all pairs (and triples with a third window of length 1..2) of windows of one 5-element backing array", nAl)
		// all square matrices up to 3x3 over 2 values
		var nm int64
		emit(Case{Fn: "Zip", M: [][]int{}})
		emit(Case{Fn: "Unzip", M: [][]int{}})
		for n := 1; n <= 3; n++ {
			seq.EnumExact([]int{0, 1}, n*n, func(cells []int) {
				m := make([][]int, n)
				for i := range m {
					m[i] = cells[i*n : (i+1)*n]
				}
				emit(Case{Fn: "Zip", M: m})
				emit(Case{Fn: "Unzip", M: m})
				nm++
			})
		}
		r.Exhaustive("Zip/Unzip on all square matrices up to 3x3 over 2 values", nm)
		ns := nestings(r.Pick(2, 3))
		for i := range ns {
			n := ns[i]
			emit(Case{Fn: "Flatten", Nest: &n})
		}
		r.Exhaustive("Flatten on a bounded family of well-formed nestings up to depth 3", int64(len(ns)))
		strs := []string{""}
		seq.Enum([]string{"a", "é", "世", " ", "𝄞"}, r.Pick(4, 5), func(p []string) {
			s := ""
			for _, x := range p {
				s += x
			}
			strs = append(strs, s)
		})
		for _, s := range strs {
			emit(Case{Fn: "ReverseStr", Str: fmt.Sprintf("%x", s)})
		}
		r.Exhaustive("ReverseStr on all strings of <=4 runes over {a, é, 世, space, 𝄞}", int64(len(strs)))
	}, run)

	nRand := r.Pick(20000, 1000000)
	core.Monitor(r, "reshape-random", 0, func(emit func(Case)) {
		rng := r.Rand("c12-random")
		fns := []string{"Chunk", "Drop", "Partition", "Filter", "Reject", "DropWhile", "DropRightWhile", "GroupBy", "Reverse", "Shuffle", "Map", "ForEach", "ForEachRight", "Reduce", "Merge", "Zip", "Unzip", "Flatten", "ReverseStr"}
		rs := func(maxLen, rv int) []int {
			s := make([]int, rng.Intn(maxLen+1))
			for i := range s {
				s[i] = rng.Intn(rv)
			}
			return s
		}
		var rn func(d int) Nest
		rn = func(d int) Nest {
			switch x := rng.Intn(10); {
			case x < 3 || d == 0:
				return leaf(rng.Intn(9))
			case x < 6:
				return Nest{IsT: true, Ints: rs(5, 9)}
			default:
				k := Nest{IsK: true, Kids: []Nest{}}
				for n := rng.Intn(4); n > 0; n-- {
					k.Kids = append(k.Kids, rn(d-1))
				}
				return k
			}
		}
		for i := 0; i < nRand; i++ {
			fn := fns[rng.Intn(len(fns))]
			c := Case{Fn: fn, S: rs(40, 4), Pred: preds[rng.Intn(len(preds))]}
			big := i%40 == 39 // inputs of hundreds to thousands of elements
			if big {
				c.S = rs(2500, 50)
			}
			switch fn {
			case "Chunk":
				c.N = rng.Range(1, 45)
				if big {
					c.N = []int{1, 2, 63, 64, 65, 255, 256, 1000, 2499, 2500, 2501, 9000}[rng.Intn(12)]
				}
			case "Drop":
				c.N = rng.Range(-45, 45)
				if big {
					c.N = rng.Range(-2600, 2600)
				}
			case "GroupBy":
				c.N = rng.Range(1, 4)
			case "Merge":
				for n := rng.Intn(4); n > 0; n-- {
					c.More = append(c.More, rs(8, 4))
				}
			case "Zip", "Unzip":
				n := rng.Intn(7)
				c.S = nil
				c.M = make([][]int, n)
				for j := range c.M {
					c.M[j] = make([]int, n)
					for k := range c.M[j] {
						c.M[j][k] = rng.Intn(5)
					}
				}
			case "Flatten":
				n := rn(4)
				c.Nest, c.S = &n, nil
			case "ReverseStr":
				var rr []rune
				nr := rng.Intn(12)
				if big {
					nr = rng.Range(30, 700)
				}
				for n := nr; n > 0; n-- {
					rr = append(rr, []rune{'a', 'Z', 'é', '世', '𝄞', ' ', '\'', 0x301}[rng.Intn(8)])
				}
				c.Str, c.S = fmt.Sprintf("%x", string(rr)), nil
			}
			emit(c)
		}
	}, run)
}
