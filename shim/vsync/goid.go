//go:build !race

package vsync

import (
	"bytes"
	"runtime"
	"strconv"
	"unsafe"
)

func getg() uintptr

// goidOffset is the offset of the goid field inside the runtime's g struct,
// discovered at start-up by comparing with the id parsed from runtime.Stack in
// two different goroutines (0 = not found: the slow path is used). Only the
// tracked mode (never the -race build's jitter mode) needs goroutine ids.
var goidOffset uintptr

func slowGoid() int64 {
	var buf [64]byte
	n := runtime.Stack(buf[:], false)
	b := buf[:n]
	b = b[len("goroutine "):]
	i := bytes.IndexByte(b, ' ')
	id, _ := strconv.ParseInt(string(b[:i]), 10, 64)
	return id
}

func candidates() map[uintptr]bool {
	id := uint64(slowGoid())
	g := getg()
	out := map[uintptr]bool{}
	for off := uintptr(0); off < 400; off += 8 {
		if *(*uint64)(unsafe.Pointer(g + off)) == id {
			out[off] = true
		}
	}
	return out
}

func init() {
	a := candidates()
	ch := make(chan map[uintptr]bool)
	go func() { ch <- candidates() }()
	b := <-ch
	go func() { ch <- candidates() }()
	c := <-ch
	for off := range a {
		if b[off] && c[off] {
			if goidOffset == 0 || off < goidOffset {
				goidOffset = off
			}
		}
	}
}

func goid() int64 {
	if goidOffset != 0 {
		return int64(*(*uint64)(unsafe.Pointer(getg() + goidOffset)))
	}
	return slowGoid()
}

// GoidFast reports whether the fast path is active (for the evidence file).
func GoidFast() bool { return goidOffset != 0 }
