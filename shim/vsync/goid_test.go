//go:build !race

package vsync

import "testing"

func TestGoid(t *testing.T) {
	if !GoidFast() {
		t.Fatalf("fast goid path not found")
	}
	done := make(chan bool)
	for i := 0; i < 50; i++ {
		go func() { done <- goid() == slowGoid() }()
	}
	for i := 0; i < 50; i++ {
		if !<-done {
			t.Fatal("goid mismatch")
		}
	}
	t.Logf("offset %d", goidOffset)
}
