//go:build !race

#include "textflag.h"

// func getg() uintptr
// Returns the address of the current goroutine's g (ABI0: g lives in TLS).
TEXT ·getg(SB),NOSPLIT,$0-8
	MOVQ (TLS), R14
	MOVQ R14, ret+0(FP)
	RET
