// Package vsync is a drop-in replacement for package sync used ONLY in the
// scratch copy of esimov/gogu that the C01/C02 checks build (the containers'
// `import "sync"` is redirected here source-to-source; see DESIGN §3.3).
//
// Mutex and RWMutex wrap the real ones; everything else is aliased.
//
// Modes (chosen once, before any goroutine is started):
//
//	off      pass-through
//	jitter   random yields/µs-sleeps before every acquire and after every release,
//	         drawn from the runtime's per-thread generator: NO shared state, hence
//	         no additional happens-before edge that could hide a race (-race builds)
//	tracked  acquisition by TryLock loops under a registry: seeded delays, an
//	         acquisition log per scenario (interleaving signature) and a logical
//	         deadlock verdict that involves no wall-clock threshold
package vsync

import (
	"hash/fnv"
	"math/rand/v2"
	"runtime"
	"sync"
	"time"
)

type (
	Cond      = sync.Cond
	Locker    = sync.Locker
	Map       = sync.Map
	Once      = sync.Once
	Pool      = sync.Pool
	WaitGroup = sync.WaitGroup
)

func NewCond(l Locker) *Cond                                   { return sync.NewCond(l) }
func OnceFunc(f func()) func()                                 { return sync.OnceFunc(f) }
func OnceValue[T any](f func() T) func() T                     { return sync.OnceValue(f) }
func OnceValues[T1, T2 any](f func() (T1, T2)) func() (T1, T2) { return sync.OnceValues(f) }

const (
	ModeOff = iota
	ModeJitter
	ModeTracked
)

var mode = ModeOff

// SetMode must be called before the goroutines that use the locks are started.
func SetMode(m int) { mode = m }
func Mode() int     { return mode }

// ---------------------------------------------------------------- jitter

func jitter() {
	r := rand.Uint32()
	switch {
	case r&0xff < 110: // ~43 %: nothing
	case r&0xff < 220: // ~43 %: yield 1..32 times
		n := int((r>>8)&31) + 1
		for i := 0; i < n; i++ {
			runtime.Gosched()
		}
	default: // ~14 %: sleep 1..16 µs
		time.Sleep(time.Duration((r>>8)&15+1) * time.Microsecond)
	}
}

// ---------------------------------------------------------------- tracked registry

// Deadlock is the panic value delivered to every worker blocked in an acquire
// loop once the verdict "no thread can ever make progress" is reached.
type deadlockT struct{}

func (deadlockT) Error() string { return "vsync: logical deadlock" }

var Deadlock error = deadlockT{}

type gstate struct {
	worker   int // -1: not a registered worker
	holds    int
	waiting  bool
	fails    int
	seenProg uint64
	done     bool
	acq      int
}

// AcqEvent is one successful acquisition.
type AcqEvent struct {
	Worker int8
	Kind   int8 // 0 Lock, 1 RLock
	Mutex  int16
}

var reg struct {
	mu         sync.Mutex
	gs         map[int64]*gstate
	progress   uint64
	deadlocked bool
	log        []AcqEvent
	mutexIDs   map[any]int16
	rng        uint64
	failLimit  int
	jitterOn   bool
	// pendingW counts, per RWMutex, the goroutines that are inside a failing Lock() loop.
	// sync.RWMutex blocks NEW readers as soon as a writer has announced itself; plain
	// TryRLock loops would not (a writer never "announces" through TryLock), and a
	// recursive read lock - reader holds RLock, writer arrives, reader takes RLock again -
	// would go unnoticed although it deadlocks the real mutex. Readers are therefore
	// refused while a writer is pending on the same mutex.
	pendingW map[any]int
}

// BeginScenario resets the registry. jitterOn=false gives plain TryLock loops
// (used for the sequential replays of the specification).
func BeginScenario(seed uint64, jitterOn bool) {
	reg.mu.Lock()
	if reg.gs == nil {
		reg.gs = map[int64]*gstate{}
		reg.mutexIDs = map[any]int16{}
	}
	for k, g := range reg.gs { // (the copy is compiled with the repository's go 1.20 language level: no clear())
		if g.holds > 0 && !g.done {
			// a goroutine that holds a lock right now (a background goroutine of the library that
			// outlives scenarios) keeps its record: forgetting the hold would let the verdict
			// conclude that nobody holds the lock the workers are failing against
			*g = gstate{worker: -1, holds: g.holds}
			continue
		}
		delete(reg.gs, k)
	}
	for k := range reg.mutexIDs {
		delete(reg.mutexIDs, k)
	}
	if reg.pendingW == nil {
		reg.pendingW = map[any]int{}
	}
	for k := range reg.pendingW {
		delete(reg.pendingW, k)
	}
	reg.progress = 0
	reg.deadlocked = false
	reg.log = reg.log[:0]
	reg.rng = seed | 1
	reg.failLimit = 50
	reg.jitterOn = jitterOn
	reg.mu.Unlock()
}

// ScenarioResult summarises the acquisitions seen since BeginScenario.
type ScenarioResult struct {
	Signature    uint64
	Acquisitions int
	Deadlocked   bool
	Leaked       int // goroutines still holding a lock
}

func EndScenario() ScenarioResult {
	reg.mu.Lock()
	defer reg.mu.Unlock()
	h := fnv.New64a()
	var b [4]byte
	for _, e := range reg.log {
		b[0], b[1], b[2], b[3] = byte(e.Worker), byte(e.Kind), byte(e.Mutex), byte(e.Mutex>>8)
		h.Write(b[:])
	}
	res := ScenarioResult{Signature: h.Sum64(), Acquisitions: len(reg.log), Deadlocked: reg.deadlocked}
	for _, g := range reg.gs {
		if g.holds > 0 {
			res.Leaked++
		}
	}
	return res
}

// Log returns a copy of the acquisition log.
func Log() []AcqEvent {
	reg.mu.Lock()
	defer reg.mu.Unlock()
	return append([]AcqEvent(nil), reg.log...)
}

// Register marks the calling goroutine as worker id of the current scenario.
func Register(id int) {
	if mode != ModeTracked {
		return
	}
	g := goid()
	reg.mu.Lock()
	reg.gs[g] = &gstate{worker: id}
	reg.mu.Unlock()
}

// Done marks the calling worker as finished (locks it still holds are leaked).
func Done() {
	if mode != ModeTracked {
		return
	}
	g := goid()
	reg.mu.Lock()
	if s := reg.gs[g]; s != nil {
		s.done = true
		s.waiting = false
	}
	reg.progress++
	reg.mu.Unlock()
}

// MyAcq returns how many acquisitions the calling goroutine has made so far.
func MyAcq() int {
	if mode != ModeTracked {
		return 0
	}
	g := goid()
	reg.mu.Lock()
	defer reg.mu.Unlock()
	if s := reg.gs[g]; s != nil {
		return s.acq
	}
	return 0
}

func nextRand() uint64 { // reg.mu held
	reg.rng += 0x9e3779b97f4a7c15
	z := reg.rng
	z = (z ^ (z >> 30)) * 0xbf58476d1ce4e5b9
	z = (z ^ (z >> 27)) * 0x94d049bb133111eb
	return z ^ (z >> 31)
}

func trackedDelay() {
	reg.mu.Lock()
	on := reg.jitterOn
	var r uint64
	if on {
		r = nextRand()
	}
	reg.mu.Unlock()
	if !on {
		return
	}
	// Mostly yields (a yield costs ~0.1-0.2 µs when the P has nothing else to run, a
	// critical section of the library a fraction of that), rarely a real sleep: the
	// relative delay between two threads is what opens a split section.
	switch {
	case r&0xff < 80: // ~31 %: nothing
	case r&0xff < 205: // ~49 %: busy wait, up to a few µs (no scheduler involvement)
		spin(int((r>>8)&4095) + 1)
	case r&0xff < 245: // ~16 %: yield 1..4 times
		n := int((r>>8)&3) + 1
		for i := 0; i < n; i++ {
			runtime.Gosched()
		}
	default: // ~4 %: a real sleep
		time.Sleep(time.Duration((r>>8)&7+1) * time.Microsecond)
	}
}

var spinSink uint64

//go:noinline
func spin(n int) {
	var x uint64
	for i := 0; i < n; i++ {
		x += uint64(i) ^ (x >> 3)
	}
	if x == 1<<63 {
		spinSink = x
	}
}

func state(g int64) *gstate { // reg.mu held
	s := reg.gs[g]
	if s == nil {
		s = &gstate{worker: -1}
		if reg.gs == nil {
			reg.gs = map[int64]*gstate{}
		}
		reg.gs[g] = s
	}
	return s
}

func mutexID(m any) int16 { // reg.mu held
	if reg.mutexIDs == nil {
		reg.mutexIDs = map[any]int16{}
	}
	id, ok := reg.mutexIDs[m]
	if !ok {
		id = int16(len(reg.mutexIDs))
		reg.mutexIDs[m] = id
	}
	return id
}

// verdict: every live worker - and every other goroutine that is waiting for a lock -
// is in a failing acquire loop with >= failLimit consecutive failures since the last
// progress event, and every goroutine that holds a lock is a finished worker or itself
// in that state. reg.mu held.
func verdict() bool {
	live := 0
	for _, s := range reg.gs {
		stuck := s.waiting && s.fails >= reg.failLimit && s.seenProg == reg.progress
		if s.worker >= 0 && !s.done {
			live++
			if !stuck {
				return false
			}
		}
		if s.holds > 0 && !(s.done || stuck) {
			return false
		}
		// A waiter that is not (yet) stuck may still get its lock - and a reader that is
		// refused because of a pending writer depends on exactly such a waiter, possibly a
		// goroutine that is not a worker (the cache's cleanup goroutine).
		if s.waiting && !s.done && !stuck {
			return false
		}
	}
	return live > 0
}

func acquire(m any, kind int8, try func() bool) {
	trackedDelay()
	g := goid()
	spins := 0
	announced := false // this goroutine is counted in pendingW[m]
	unannounce := func() { // reg.mu held
		if announced {
			announced = false
			if reg.pendingW[m]--; reg.pendingW[m] <= 0 {
				delete(reg.pendingW, m)
			}
		}
	}
	for {
		// The attempt and its bookkeeping are one step under reg.mu: were the successful
		// TryLock outside, a goroutine descheduled between "got the lock" and "recorded it"
		// would still look like a stuck waiter (waiting, fails >= limit, no progress since) and
		// the others, failing against the lock it now holds, could reach a FALSE deadlock
		// verdict (seen 6 times in one thorough run: Cache+janitor, 4-6 workers x 50 calls).
		// TryLock never blocks, so holding reg.mu across it is harmless.
		reg.mu.Lock()
		if reg.pendingW == nil {
			reg.pendingW = map[any]int{}
		}
		if !(kind == 1 && reg.pendingW[m] > 0) && try() {
			unannounce()
			s := state(g)
			s.waiting, s.fails = false, 0
			s.holds++
			s.acq++
			reg.progress++
			if len(reg.log) < 1<<16 {
				reg.log = append(reg.log, AcqEvent{Worker: int8(s.worker), Kind: kind, Mutex: mutexID(m)})
			}
			reg.mu.Unlock()
			return
		}
		s := state(g)
		if kind == 0 && !announced {
			if _, isRW := m.(*RWMutex); isRW {
				announced = true
				reg.pendingW[m]++
			}
		}
		if reg.deadlocked {
			isWorker := s.worker >= 0
			unannounce()
			reg.mu.Unlock()
			if isWorker {
				panic(Deadlock)
			}
			runtime.Goexit()
		}
		if !s.waiting || s.seenProg != reg.progress {
			s.waiting, s.fails, s.seenProg = true, 0, reg.progress
		}
		s.fails++
		if s.fails >= reg.failLimit && verdict() {
			reg.deadlocked = true
		}
		dead := reg.deadlocked
		isWorker := s.worker >= 0
		if dead {
			unannounce()
		}
		reg.mu.Unlock()
		if dead {
			if isWorker {
				panic(Deadlock)
			}
			runtime.Goexit()
		}
		spins++
		switch {
		case spins < 40:
			spin(200)
		case spins < 200:
			runtime.Gosched()
		default:
			time.Sleep(20 * time.Microsecond)
		}
	}
}

func released() {
	g := goid()
	reg.mu.Lock()
	s := state(g)
	if s.holds > 0 {
		s.holds--
	} else {
		// unlock by a goroutine other than the locker: find a holder to debit
		for _, o := range reg.gs {
			if o.holds > 0 {
				o.holds--
				break
			}
		}
	}
	reg.progress++
	reg.mu.Unlock()
	trackedDelay()
}

// ---------------------------------------------------------------- Mutex

type Mutex struct{ real sync.Mutex }

func (m *Mutex) Lock() {
	switch mode {
	case ModeJitter:
		jitter()
		m.real.Lock()
	case ModeTracked:
		acquire(m, 0, m.real.TryLock)
	default:
		m.real.Lock()
	}
}

func (m *Mutex) TryLock() bool { return m.real.TryLock() }

func (m *Mutex) Unlock() {
	m.real.Unlock()
	switch mode {
	case ModeJitter:
		jitter()
	case ModeTracked:
		released()
	}
}

// ---------------------------------------------------------------- RWMutex

type RWMutex struct{ real sync.RWMutex }

func (m *RWMutex) Lock() {
	switch mode {
	case ModeJitter:
		jitter()
		m.real.Lock()
	case ModeTracked:
		acquire(m, 0, m.real.TryLock)
	default:
		m.real.Lock()
	}
}

func (m *RWMutex) RLock() {
	switch mode {
	case ModeJitter:
		jitter()
		m.real.RLock()
	case ModeTracked:
		acquire(m, 1, m.real.TryRLock)
	default:
		m.real.RLock()
	}
}

func (m *RWMutex) TryLock() bool  { return m.real.TryLock() }
func (m *RWMutex) TryRLock() bool { return m.real.TryRLock() }

func (m *RWMutex) Unlock() {
	m.real.Unlock()
	switch mode {
	case ModeJitter:
		jitter()
	case ModeTracked:
		released()
	}
}

func (m *RWMutex) RUnlock() {
	m.real.RUnlock()
	switch mode {
	case ModeJitter:
		jitter()
	case ModeTracked:
		released()
	}
}

type rlocker RWMutex

func (r *rlocker) Lock()   { (*RWMutex)(r).RLock() }
func (r *rlocker) Unlock() { (*RWMutex)(r).RUnlock() }

func (m *RWMutex) RLocker() Locker { return (*rlocker)(m) }
