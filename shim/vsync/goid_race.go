//go:build race

package vsync

import (
	"bytes"
	"runtime"
	"strconv"
)

// In -race builds (checkptr on) only the portable path exists; the jitter mode
// used there never asks for goroutine ids anyway.
func goid() int64 {
	var buf [64]byte
	n := runtime.Stack(buf[:], false)
	b := buf[:n]
	b = b[len("goroutine "):]
	i := bytes.IndexByte(b, ' ')
	id, _ := strconv.ParseInt(string(b[:i]), 10, 64)
	return id
}

func slowGoid() int64 { return goid() }

func GoidFast() bool { return false }
